#!/bin/bash
# run every quick check once against /repo; one line per check; non-zero exit if any check is not quiet
cd "$(dirname "$(readlink -f "$0")")/.." || exit 3
bad=0
for c in C01 C02 C03 C04 C05 C06 C07 C08 C09 C10 C11 C12 C13 C14 C15 C16 C17 C18 C19 C20; do
  out=$(./check $c --tier ${1:-quick} 2>&1); rc=$?
  line=$(echo "$out" | grep -E "^$c tier=" | sed -E 's/ states=.*wall=/ ... wall=/')
  echo "$c exit=$rc $line"
  if [ $rc -ne 0 ]; then bad=1; echo "$out" | grep -E "VIOLATION|signature=|HARNESS|Error|KNOWN" | head -5; fi
done
exit $bad
