#!/usr/bin/env python3
"""tools/mut.py <check-ids,comma> <file-rel-to-/repo> [--suite] [--tier T] -- reads OLD and NEW from files or args.
usage: mut.py C10 acnportal/x.py 'old' 'new' [--suite]
Applies a one-place textual mutation to /repo (first occurrence; '@N:' prefix on old selects Nth occurrence, 1-based),
runs the checks, restores the file."""
import subprocess, sys, os, re
args = [a for a in sys.argv[1:] if a != "--suite"]
suite = "--suite" in sys.argv
ids, rel, old, new = args[:4]
path = os.path.join("/repo", rel)
src = open(path).read()
nth = 1
m = re.match(r"@(\d+):", old)
if m:
    nth = int(m.group(1)); old = old[m.end():]
old = old.encode().decode("unicode_escape") if "\\n" in old else old
new = new.encode().decode("unicode_escape") if "\\n" in new else new
pos = -1
for _ in range(nth):
    pos = src.find(old, pos + 1)
    if pos < 0:
        sys.exit("old string not found (occurrence %d)" % nth)
mutated = src[:pos] + new + src[pos + len(old):]
try:
    open(path, "w").write(mutated)
    if suite:
        r = subprocess.run("cd /repo && /venv/bin/python -m pytest -q -p no:cacheprovider --timeout=900 --continue-on-collection-errors -x --deselect tests/test_integration.py 2>&1 | tail -3", shell=True, capture_output=True, text=True)
        print("SUITE:", r.stdout.strip().splitlines()[-1] if r.stdout.strip() else r.stderr[-300:])
    for cid in ids.split(","):
        r = subprocess.run(["/verif/check", cid], capture_output=True, text=True)
        lines = [l for l in r.stdout.splitlines() if "signature=" in l or "KNOWN" in l]
        print("%s exit=%d" % (cid, r.returncode), "|", " ;; ".join(l.strip()[:170] for l in lines[:5]))
        if r.returncode not in (0, 1):
            print(r.stderr[-1500:])
        subprocess.run(["rm", "-rf", "/verif/replays/%s" % cid])
finally:
    open(path, "w").write(src)
    subprocess.run(["git", "-C", "/repo", "status", "--short"])
