#!/usr/bin/env python3
"""tools/trymut.py [--suite] <check-ids,comma> <file-rel-to-/repo> <old> <new>
Apply a one-place textual mutation to /repo, run the named checks (quick tier), restore the file.
With --suite also run the repository's own test-suite on the mutant (must still pass to count)."""
import subprocess, sys, os
args = sys.argv[1:]
suite = False
if args[0] == "--suite":
    suite = True; args = args[1:]
ids, rel, old, new = args
path = os.path.join("/repo", rel)
src = open(path).read()
if src.count(old) != 1:
    sys.exit("old string occurs %d times" % src.count(old))
try:
    open(path, "w").write(src.replace(old, new))
    if suite:
        r = subprocess.run("cd /repo && /venv/bin/python -m pytest -q -p no:cacheprovider --timeout=900 --continue-on-collection-errors -x --deselect tests/test_integration.py 2>&1 | tail -3", shell=True, capture_output=True, text=True)
        print("SUITE:", r.stdout.strip().splitlines()[-1] if r.stdout.strip() else r.stderr[-300:])
    for cid in ids.split(","):
        r = subprocess.run(["/verif/check", cid], capture_output=True, text=True)
        lines = [l for l in r.stdout.splitlines() if "VIOLATION" in l or "signature=" in l or "KNOWN" in l]
        print("%s exit=%d" % (cid, r.returncode), "|", " ;; ".join(l.strip()[:200] for l in lines[:6]))
        if r.returncode not in (0, 1):
            print(r.stderr[-1500:])
finally:
    open(path, "w").write(src)
    subprocess.run(["git", "-C", "/repo", "status", "--short"])
