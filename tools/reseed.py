#!/usr/bin/env python3
"""tools/reseed.py [<seed-name-glob> ...] [--tier T] [--jobs N]

Re-run, for every filed seeded change (seeded/<name>/patch.diff), the property's own check
against a scratch worktree with the patch applied, and refresh meta.json:
  current = {"commit": <verif HEAD>, "tier": T, "exit": rc, "signatures": [...], "wall_s": s}
`own_check_catches` is set from the result; when it flips from False to True, `strengthened`
is set. /repo is never modified. Prints one line per seed and a summary of misses.
"""
import fnmatch
import glob
import json
import os
import subprocess
import sys
import tempfile
import time
from concurrent.futures import ThreadPoolExecutor

args = sys.argv[1:]


def opt(name, default=None):
    if name in args:
        i = args.index(name)
        v = args[i + 1]
        del args[i : i + 2]
        return v
    return default


tier = opt("--tier", "quick")
jobs = int(opt("--jobs", "2"))
pats = args or ["*"]
head = subprocess.run(["git", "-C", "/verif", "rev-parse", "--short", "HEAD"], capture_output=True, text=True).stdout.strip()
names = sorted(os.path.basename(d.rstrip("/")) for d in glob.glob("/verif/seeded/*/"))
names = [n for n in names if any(fnmatch.fnmatch(n, p) for p in pats)]


def one(name):
    d = "/verif/seeded/" + name
    meta = json.load(open(d + "/meta.json"))
    pid = meta["property"]
    wt = tempfile.mkdtemp(prefix="reseed_", dir="/tmp")
    os.rmdir(wt)
    subprocess.run(["git", "-C", "/repo", "worktree", "add", "-q", "--detach", wt, "HEAD"], check=True)
    try:
        r = subprocess.run(["git", "-C", wt, "apply", d + "/patch.diff"], capture_output=True, text=True)
        if r.returncode:
            return name, None, "patch does not apply: " + r.stderr[-200:]
        t0 = time.time()
        r = subprocess.run(["/verif/check", pid, "--tier", tier], capture_output=True, text=True, env=dict(os.environ, VERIF_REPO=wt))
        sigs = [l.strip().split(" :: ")[0].replace("signature=", "") for l in r.stdout.splitlines() if l.strip().startswith("signature=")]
        cur = {"commit": head, "tier": tier, "exit": r.returncode, "signatures": sigs[:6], "wall_s": round(time.time() - t0, 1)}
        was = meta.get("own_check_catches")
        meta["current"] = cur
        if r.returncode == 1:
            if was is False:
                meta["strengthened"] = meta.get("strengthened") or True
            meta["own_check_catches"] = True
            meta["signatures_after_strengthening"] = sigs[:6] if meta.get("strengthened") else meta.get("signatures_after_strengthening")
            if not meta.get("signatures_after_strengthening"):
                meta.pop("signatures_after_strengthening", None)
            cb = meta.get("caught_by", [])
            if pid not in cb:
                meta["caught_by"] = [pid] + cb
        elif r.returncode == 0:
            meta["own_check_catches"] = False
            meta["caught_by"] = [c for c in meta.get("caught_by", []) if c != pid]
        with open(d + "/meta.json", "w") as f:
            json.dump(meta, f, indent=1)
        tail = "" if r.returncode in (0, 1) else (r.stdout[-500:] + r.stderr[-800:])
        return name, cur, tail
    finally:
        subprocess.run(["git", "-C", "/repo", "worktree", "remove", "--force", wt])
        subprocess.run(["rm", "-rf", os.path.join("/tmp/verif_scratch", os.path.basename(wt))])


miss = []
with ThreadPoolExecutor(jobs) as ex:
    for name, cur, tail in ex.map(one, names):
        if cur is None:
            print(name, "ERROR", tail)
            miss.append(name)
            continue
        print("%s exit=%d %.0fs %s" % (name, cur["exit"], cur["wall_s"], cur["signatures"][:3]), flush=True)
        if cur["exit"] != 1:
            miss.append(name)
            if tail:
                print(tail)
print("NOT REPORTED:", miss)
