#!/bin/bash
# tools/wave_ingest.sh <wave-dir> <wave-slug> <Cxx> [Cxx ...]: ingest patch1..3 of each named property (own check only)
W=$1; S=$2; shift 2
for c in "$@"; do
  for k in 1 2 3; do
    [ -f $W/${c}_out/patch$k.diff ] || { echo "$c-$k MISSING"; continue; }
    needs=$(tr '\n' ' ' < $W/${c}_out/notes$k.txt 2>/dev/null | cut -c1-600)
    /venv/bin/python /verif/tools/seed_ingest.py $c $W/${c}_out $k --name $S-$k --needs "$needs" --checks $c 2>&1 | grep -v conda.cli | grep -E "REJECT|FILED|exit=" | sed "s/^/$c-$k: /"
  done
done
