#!/usr/bin/env python3
"""tools/seed_ingest.py <Cxx> <out_dir> <i> [--needs "<text>"] [--checks C01,C02|ALL] [--name <slug>]

Confirms a seeded property-breaking change produced by a sub-agent and files it under
/verif/seeded/<Cxx>-<slug>/ :
  1. fresh scratch worktree of /repo HEAD; demo passes on it;
  2. patch applies; the repository's suite still passes (384 passed); demo now fails;
  3. the named checks (default: the property's own check, then all others) are run against the
     patched worktree (VERIF_REPO) - which ones report a VIOLATION is recorded;
  4. patch.diff, demo.py and meta.json are written; the worktree is removed.
Nothing is ever applied to /repo.
"""
import json
import os
import shutil
import subprocess
import sys
import tempfile
import time

args = sys.argv[1:]


def opt(name, default=None):
    if name in args:
        i = args.index(name)
        v = args[i + 1]
        del args[i : i + 2]
        return v
    return default


needs = opt("--needs", "")
checks = opt("--checks", "auto")
slug = opt("--name", None)
pid, out_dir, idx = args[0], args[1], args[2]
patch = os.path.join(out_dir, "patch%s.diff" % idx)
demo = os.path.join(out_dir, "demo%s.py" % idx)
ALL = ["C%02d" % i for i in range(1, 21)]
auto = checks == "auto"
order = [pid] + [c for c in (ALL if checks in ("ALL", "auto") else checks.split(",")) if c != pid]

wt = tempfile.mkdtemp(prefix="seedwt_", dir="/tmp")
os.rmdir(wt)
subprocess.run(["git", "-C", "/repo", "worktree", "add", "-q", "--detach", wt, "HEAD"], check=True)
meta = {"property": pid, "source": "sub-agent, independent of /verif", "needs_to_manifest": needs, "ran": {}}
ok = True
try:
    env = dict(os.environ, PYTHONPATH=wt)

    # demos written against the sub-agent's own worktree sometimes assert that path: point them at this one
    import re

    demo_src = re.sub(r"/tmp/w\d+/C\d\d_wt", wt, open(demo).read())
    demo_run = wt + "_demo.py"
    with open(demo_run, "w") as f:
        f.write(demo_src)

    def run_demo():
        r = subprocess.run(["/venv/bin/python", "-W", "ignore", demo_run], cwd=wt, env=env, capture_output=True, text=True, timeout=600)
        return r.returncode, (r.stdout + r.stderr)[-400:]

    rc0, out0 = run_demo()
    meta["ran"]["demo_on_clean_tree"] = {"exit": rc0}
    if rc0 != 0:
        print("REJECT: demo fails on the clean tree:", out0)
        ok = False
    r = subprocess.run(["git", "-C", wt, "apply", patch], capture_output=True, text=True)
    if r.returncode:
        print("REJECT: patch does not apply:", r.stderr)
        ok = False
    if ok:
        rc1, out1 = run_demo()
        meta["ran"]["demo_with_patch"] = {"exit": rc1, "tail": out1[-300:]}
        if rc1 == 0:
            print("REJECT: demo passes with the patch")
            ok = False
    if ok:
        r = subprocess.run(
            "/venv/bin/python -m pytest -q -p no:cacheprovider --timeout=900 --continue-on-collection-errors --deselect tests/test_integration.py 2>&1 | tail -1",
            shell=True,
            cwd=wt,
            env=env,
            capture_output=True,
            text=True,
        )
        line = r.stdout.strip().splitlines()[-1] if r.stdout.strip() else ""
        meta["ran"]["repo_suite_with_patch"] = line
        if "384 passed" not in line or "failed" in line:
            print("REJECT: suite with patch:", line)
            ok = False
    if ok:
        caught = {}
        env2 = dict(os.environ, VERIF_REPO=wt)
        for cid in order:
            t0 = time.time()
            r = subprocess.run(["/verif/check", cid], capture_output=True, text=True, env=env2)
            sigs = [l.strip().split(" :: ")[0].replace("signature=", "") for l in r.stdout.splitlines() if l.strip().startswith("signature=")]
            caught[cid] = {"exit": r.returncode, "signatures": sigs[:6], "wall_s": round(time.time() - t0, 1)}
            print("%s exit=%d %s" % (cid, r.returncode, sigs[:3]))
            if r.returncode not in (0, 1):
                print(r.stderr[-600:])
            if auto and cid == pid and r.returncode == 1:
                break  # the property's own check reports it; the others are only consulted when it does not
        meta["checks_quick_against_patched_tree"] = caught
        meta["caught_by"] = [c for c, v in caught.items() if v["exit"] == 1]
        meta["own_check_catches"] = caught[pid]["exit"] == 1
        if slug is None:
            slug = "%s" % idx
        dest = "/verif/seeded/%s-%s" % (pid, slug)
        os.makedirs(dest, exist_ok=True)
        shutil.copy(patch, os.path.join(dest, "patch.diff"))
        shutil.copy(demo, os.path.join(dest, "demo.py"))
        meta["how_to_rerun"] = "tools/mutw.py %s --patch seeded/%s-%s/patch.diff  (scratch worktree; /repo is never modified)" % (pid, pid, slug)
        with open(os.path.join(dest, "meta.json"), "w") as f:
            json.dump(meta, f, indent=1)
        print("FILED", dest, "caught_by", meta["caught_by"])
finally:
    subprocess.run(["git", "-C", "/repo", "worktree", "remove", "--force", wt])
    shutil.rmtree(os.path.join("/tmp/verif_scratch", os.path.basename(wt)), ignore_errors=True)
    if os.path.exists(wt + "_demo.py"):
        os.remove(wt + "_demo.py")
sys.exit(0 if ok else 2)
