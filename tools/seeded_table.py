#!/usr/bin/env python3
"""Regenerate the 'seeded changes' table of DESIGN.md (between the SEEDED-TABLE markers) from seeded/*/meta.json."""
import glob, json, os, re
rows = []
for d in sorted(glob.glob("/verif/seeded/*/")):
    m = json.load(open(os.path.join(d, "meta.json")))
    name = os.path.basename(d.rstrip("/"))
    patch = open(os.path.join(d, "patch.diff")).read()
    files = sorted(set(re.findall(r"^\+\+\+ b/(\S+)", patch, re.M)))
    own = m.get("own_check_catches")
    sigs = (m.get("checks_quick_against_patched_tree", {}).get(m["property"], {}) or {}).get("signatures", [])
    if m.get("signatures_after_strengthening"):
        sigs = m["signatures_after_strengthening"]
    if m.get("current", {}).get("signatures"):
        sigs = m["current"]["signatures"]
    rows.append("| %s | %s | %s | %s | %s | %s |" % (
        name, m["property"], ", ".join(os.path.basename(f) for f in files),
        (m.get("needs_to_manifest") or "").replace("|", "/")[:160],
        ", ".join(m.get("caught_by", [])) or "**none**",
        ("obsolete: " + m["obsolete"][:140] if m.get("obsolete") else (("yes" if own else ("outside the property's quantifier (" + m["scope_note"][:120] + ")" if m.get("scope_note") else "NO")) + (" (after strengthening)" if m.get("strengthened") and own else "") + (": " + ", ".join(sigs[:2]) if sigs and own else ""))),
    ))
table = "\n".join(["| seeded change | property | file(s) | needs to manifest | reported by | own check |", "|---|---|---|---|---|---|"] + rows)
p = "/verif/DESIGN.md"
s = open(p).read()
a, b = "<!-- SEEDED-TABLE-BEGIN -->", "<!-- SEEDED-TABLE-END -->"
if a in s:
    s = s[: s.index(a) + len(a)] + "\n" + table + "\n" + s[s.index(b):]
    open(p, "w").write(s)
print(table)
