#!/usr/bin/env python3
"""tools/benign_rerun.py [--jobs N] [name-glob ...]: re-run every filed property-preserving change (benign/<name>) against the
CURRENT checks (the same checks that were run when it was filed) and refresh meta.json. /repo is never modified."""
import fnmatch, glob, json, os, subprocess, sys
args = sys.argv[1:]
jobs = "3"
if "--jobs" in args:
    i = args.index("--jobs"); jobs = args[i + 1]; del args[i:i + 2]
pats = args or ["*"]
bad = []
for d in sorted(glob.glob("/verif/benign/*/")):
    name = os.path.basename(d.rstrip("/"))
    if not any(fnmatch.fnmatch(name, p) for p in pats) or not os.path.exists(d + "meta.json"):
        continue
    m = json.load(open(d + "meta.json"))
    checks = sorted(m.get("checks_quick_against_patched_tree", {}).get("results", {})) or ["ALL"]
    r = subprocess.run(["/venv/bin/python", "/verif/tools/benign_ingest.py", name, "--refile", "--checks", ",".join(checks), "--jobs", jobs], capture_output=True, text=True)
    line = [l for l in r.stdout.splitlines() if l.startswith("FILED") or l.startswith("REJECT")]
    print(name, line[-1] if line else r.stdout[-300:] + r.stderr[-300:], flush=True)
    if "alarms=[]" not in (line[-1] if line else "") or "harness_errors=[]" not in (line[-1] if line else ""):
        bad.append(name)
print("NOT SILENT:", bad)
