#!/usr/bin/env python3
"""Regenerate /verif/benign/INDEX.md from benign/*/meta.json (property-preserving changes and what the checks said)."""
import glob, json, os, re
rows = []
for d in sorted(glob.glob("/verif/benign/*/")):
    if not os.path.exists(d + "meta.json"):
        continue
    m = json.load(open(d + "meta.json"))
    name = os.path.basename(d.rstrip("/"))
    patch = open(d + "patch.diff").read()
    files = sorted(set(os.path.basename(f) for f in re.findall(r"^\+\+\+ b/(\S+)", patch, re.M)))
    res = m.get("checks_quick_against_patched_tree", {}).get("results", {})
    ran = ", ".join(sorted(res))
    alarms = ", ".join(m.get("alarms", [])) or "-"
    herr = ", ".join(m.get("harness_errors", [])) or "-"
    rows.append("| %s | %s | %s | %s | %s | %s | %s | %s |" % (name, m.get("near", ""), ", ".join(files), (m.get("summary") or "").replace("|", "/")[:220], ran, alarms, herr, (m.get("verdict") or "").replace("|", "/")))
txt = "# Property-preserving changes (false-alarm probes)\n\nEach change was written by an independent sub-agent that saw only the property texts; the repository suite passes with it (384 passed); the listed checks (quick tier) were run against a scratch worktree with the patch applied. Expected: no alarm.\n\n| change | near | file(s) | what changed | checks run | VIOLATION from | harness error (exit 3) from | verdict / note |\n|---|---|---|---|---|---|---|---|\n" + "\n".join(rows) + "\n"
open("/verif/benign/INDEX.md", "w").write(txt)
print(len(rows), "rows; alarms:", [r.split("|")[1].strip() for r in rows if r.split("|")[6].strip() != "-"])
