#!/bin/bash
for c in C01 C02 C03 C04 C05 C06 C07 C08 C09 C10 C11 C12 C13 C14 C15 C16 C17 C18 C19 C20; do
  /usr/bin/time -f "$c wall=%e s maxrss=%M KB" ./check $c --tier thorough 2>&1 | grep -v conda.cli | grep -E "tier=|VIOLATION|signature|wall=|HARNESS|KNOWN" 
done
