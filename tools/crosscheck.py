#!/usr/bin/env python3
"""tools/crosscheck.py <seed-name> <C01,C02|ALL> [--tier T]

For a filed seeded change whose own check does not report it: run OTHER checks against a scratch worktree with the
patch applied and record in meta.json which of them report it (`caught_by`, `cross_checks`). /repo is never modified.
"""
import json
import os
import subprocess
import sys
import tempfile
import time

args = sys.argv[1:]
tier = "quick"
if "--tier" in args:
    i = args.index("--tier")
    tier = args[i + 1]
    del args[i : i + 2]
name, ids = args[0], args[1]
ALL = ["C%02d" % i for i in range(1, 21)]
d = "/verif/seeded/" + name
meta = json.load(open(d + "/meta.json"))
ids = [c for c in (ALL if ids == "ALL" else ids.split(",")) if c != meta["property"]]
head = subprocess.run(["git", "-C", "/verif", "rev-parse", "--short", "HEAD"], capture_output=True, text=True).stdout.strip()
wt = tempfile.mkdtemp(prefix="crosswt_", dir="/tmp")
os.rmdir(wt)
subprocess.run(["git", "-C", "/repo", "worktree", "add", "-q", "--detach", wt, "HEAD"], check=True)
try:
    r = subprocess.run(["git", "-C", wt, "apply", d + "/patch.diff"], capture_output=True, text=True)
    if r.returncode:
        sys.exit("patch does not apply: " + r.stderr)
    res = meta.get("cross_checks", {})
    for cid in ids:
        t0 = time.time()
        r = subprocess.run(["/verif/check", cid, "--tier", tier], capture_output=True, text=True, env=dict(os.environ, VERIF_REPO=wt))
        sigs = [l.strip().split(" :: ")[0].replace("signature=", "") for l in r.stdout.splitlines() if l.strip().startswith("signature=")]
        res[cid] = {"commit": head, "tier": tier, "exit": r.returncode, "signatures": sigs[:4], "wall_s": round(time.time() - t0, 1)}
        print("%s %s exit=%d %s" % (name, cid, r.returncode, sigs[:3]), flush=True)
    meta["cross_checks"] = res
    own = [meta["property"]] if meta.get("own_check_catches") else []
    meta["caught_by"] = own + sorted(c for c, v in res.items() if v["exit"] == 1)
    with open(d + "/meta.json", "w") as f:
        json.dump(meta, f, indent=1)
finally:
    subprocess.run(["git", "-C", "/repo", "worktree", "remove", "--force", wt])
    subprocess.run(["rm", "-rf", os.path.join("/tmp/verif_scratch", os.path.basename(wt))])
