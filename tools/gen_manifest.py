#!/usr/bin/env python3
"""Regenerate /verif/MANIFEST.json from the property modules that exist (run with /venv/bin/python)."""
import importlib, json, os, sys
sys.path[:0] = ["/verif", "/repo"]
ALL = ["C%02d" % i for i in range(1, 21)]
checks, na = [], []
for pid in ALL:
    path = "/verif/mc/props/%s.py" % pid.lower()
    if not os.path.exists(path):
        na.append({"property_id": pid, "reason": "check not built yet (work in progress; the design in DESIGN.md section 4 claims it)"})
        continue
    m = importlib.import_module("mc.props.%s" % pid.lower())
    checks.append({
        "property_id": pid,
        "quick_cmd": "./check %s --tier quick" % pid,
        "thorough_cmd": "./check %s --tier thorough" % pid,
        "evidence_file": "/verif/evidence/%s.json" % pid,
        "replay_cmd_template": "./check %s --replay {path}" % pid,
        "engine": "mc",
        "level_claimed": {"category": m.LEVEL, "text": getattr(m, "LEVEL_TEXT", m.RULE), "design_ref": "DESIGN.md section 4, %s" % pid},
        "level_note": "; ".join(m.ASSUMPTIONS),
        "technique": m.TECHNIQUE,
    })
man = {
    "version": 1,
    "setup_cmd": "true",
    "hooks": {
        "guard": "ACNPORTAL_VERIF",
        "enable": "no source hooks exist: every observation is made from the harness process (subclasses, wrappers, owned random/requests seams); ./check exports ACNPORTAL_VERIF=1 and imports acnportal from /repo's working tree (editable install), so there is nothing to build",
        "baseline_off_cmd": "cd /repo && /venv/bin/python -m pytest -ra -q -p no:cacheprovider --timeout=900 --continue-on-collection-errors",
        "source_commits": [],
        "add_only": True,
    },
    "engines": [{
        "name": "mc",
        "path": "/verif/mc",
        "serves_properties": [c["property_id"] for c in checks],
        "kind_free_text": "hand-written bounded-exhaustive explorer for Python: explicit-state BFS over operation sequences (SEQ), stateless DFS over owned choice points with deviation bound (CHOICE), exhaustive scenario products sharded over 16 processes (SCEN); executes the real acnportal code, compares with small reference models in every state",
    }],
    "checks": checks,
    "not_applicable": na,
    "notes": "All checks: exit 0 = held on everything explored; exit 1 + 'VIOLATION property=<id> replay=<path>' = violation; exit 3 = harness self-check failed (vacuous run, nondeterministic replay, evidence schema). Known findings: /verif/known_findings.json.",
}
json.dump(man, open("/verif/MANIFEST.json", "w"), indent=1)
print("checks:", [c["property_id"] for c in checks], "na:", len(na))
