#!/usr/bin/env python3
"""tools/benign_ingest.py <name> <patch.diff> [--near Cxx] [--summary "<text>"] [--checks ALL|C01,C02] [--refile]

Files a property-PRESERVING change (written by an independent sub-agent that saw only the property
texts) under /verif/benign/<name>/ and runs the quick checks against it in a scratch worktree:
  1. fresh scratch worktree of /repo HEAD, patch applied, the repository's own suite must pass;
  2. every named check (default ALL) is run with VERIF_REPO pointing at the worktree;
     the expected result is exit 0 everywhere. Exit 1 (VIOLATION) = false alarm of the check or a
     change that is not benign after all - to be decided by hand and recorded in meta.json under
     "verdict"; exit 3 = the harness depends on an internal the change renamed (also recorded);
  3. patch.diff and meta.json are written; the worktree is removed. /repo is never modified.
With --refile an existing /verif/benign/<name> is re-run (patch taken from there).
"""
import json
import os
import shutil
import subprocess
import sys
import tempfile
import time
from concurrent.futures import ThreadPoolExecutor

args = sys.argv[1:]


def opt(name, default=None):
    if name in args:
        i = args.index(name)
        v = args[i + 1]
        del args[i : i + 2]
        return v
    return default


near = opt("--near", "")
summary = opt("--summary", "")
checks = opt("--checks", "ALL")
jobs = int(opt("--jobs", "2"))
base = opt("--base", "HEAD")  # a patch written before a later fix: commit of /repo it applies to
refile = "--refile" in args
args = [a for a in args if a != "--refile"]
name = args[0]
dest = "/verif/benign/%s" % name
patch = os.path.join(dest, "patch.diff") if refile else os.path.abspath(args[1])
ALL = ["C%02d" % i for i in range(1, 21)]
ids = ALL if checks == "ALL" else checks.split(",")
old = json.load(open(dest + "/meta.json")) if os.path.exists(dest + "/meta.json") else {}

wt = tempfile.mkdtemp(prefix="benwt_", dir="/tmp")
os.rmdir(wt)
subprocess.run(["git", "-C", "/repo", "worktree", "add", "-q", "--detach", wt, old.get("base", base) if refile else base], check=True)
head = subprocess.run(["git", "-C", "/verif", "rev-parse", "--short", "HEAD"], capture_output=True, text=True).stdout.strip()
meta = {
    "kind": "property-preserving change (false-alarm probe)",
    "near": near or old.get("near", ""),
    "summary": summary or old.get("summary", ""),
    "source": "sub-agent, independent of /verif",
    "ran": {},
}
if (old.get("base", base) if refile else base) != "HEAD":
    meta["base"] = old.get("base", base) if refile else base
    meta["base_note"] = "written against the tree before the fixes 01ec3a7 (C06, float constraint matrix) and 3f2dd76 (C03, vanishing pilot) and evaluated on that tree: the two signatures of those defects (C06 exception:TypeError on template emptyterm, C03/C14 exception:ZeroDivisionError) are expected there and are not alarms about this change"
if "verdict" in old:
    meta["verdict"] = old["verdict"]
ok = True
try:
    r = subprocess.run(["git", "-C", wt, "apply", patch], capture_output=True, text=True)
    if r.returncode:
        print("REJECT: patch does not apply:", r.stderr)
        ok = False
    if ok:
        r = subprocess.run(
            "/venv/bin/python -m pytest -q -p no:cacheprovider --timeout=900 --continue-on-collection-errors --deselect tests/test_integration.py 2>&1 | tail -1",
            shell=True,
            cwd=wt,
            env=dict(os.environ, PYTHONPATH=wt),
            capture_output=True,
            text=True,
        )
        line = r.stdout.strip().splitlines()[-1] if r.stdout.strip() else ""
        meta["ran"]["repo_suite_with_patch"] = line
        if "384 passed" not in line or "failed" in line:
            print("REJECT: suite with patch:", line)
            ok = False
    if ok:
        env2 = dict(os.environ, VERIF_REPO=wt)

        def one(cid):
            t0 = time.time()
            r = subprocess.run(["/verif/check", cid], capture_output=True, text=True, env=env2)
            sigs = [l.strip()[:300] for l in r.stdout.splitlines() if l.strip().startswith("signature=")]
            tail = "" if r.returncode in (0, 1) else (r.stdout[-300:] + r.stderr[-600:])
            return cid, {"exit": r.returncode, "signatures": sigs[:4], "wall_s": round(time.time() - t0, 1), **({"tail": tail} if tail else {})}

        res = {}
        with ThreadPoolExecutor(jobs) as ex:
            for cid, v in ex.map(one, ids):
                res[cid] = v
                if v["exit"] != 0:
                    print("  %s exit=%d %s %s" % (cid, v["exit"], v["signatures"][:2], v.get("tail", "")[-400:]))
        meta["checks_quick_against_patched_tree"] = {"verif_commit": head, "results": res}
        meta["alarms"] = [c for c, v in res.items() if v["exit"] == 1]
        meta["harness_errors"] = [c for c, v in res.items() if v["exit"] not in (0, 1)]
        os.makedirs(dest, exist_ok=True)
        if not refile:
            shutil.copy(patch, os.path.join(dest, "patch.diff"))
        with open(os.path.join(dest, "meta.json"), "w") as f:
            json.dump(meta, f, indent=1)
        print("FILED %s alarms=%s harness_errors=%s" % (name, meta["alarms"], meta["harness_errors"]))
finally:
    subprocess.run(["git", "-C", "/repo", "worktree", "remove", "--force", wt])
    shutil.rmtree(os.path.join("/tmp/verif_scratch", os.path.basename(wt)), ignore_errors=True)
sys.exit(0 if ok else 2)
