#!/usr/bin/env python3
"""tools/mutw.py <check-ids,comma|ALL> (--patch <file.diff> | <file-rel> <old> <new>) [--suite] [--tier T] [--demo <cmd>]

Run checks against a seeded change WITHOUT touching /repo: a scratch git worktree of /repo's HEAD
is created under /tmp, the change is applied there (a unified diff, or a one-place textual
replacement; '@N:' prefix on <old> selects the N-th occurrence), the repository's own suite is
optionally run in it, the named checks are run with VERIF_REPO pointing at it, and the worktree is
removed again. Prints one line per check: exit status and the signatures reported.
"""
import os
import re
import subprocess
import sys
import tempfile

args = sys.argv[1:]
suite = "--suite" in args
args = [a for a in args if a != "--suite"]
tier = "quick"
if "--tier" in args:
    i = args.index("--tier")
    tier = args[i + 1]
    del args[i : i + 2]
patch = None
if "--patch" in args:
    i = args.index("--patch")
    patch = os.path.abspath(args[i + 1])
    del args[i : i + 2]
ids = args[0]
ALL = ["C%02d" % i for i in range(1, 21)]
ids = ALL if ids == "ALL" else ids.split(",")
wt = tempfile.mkdtemp(prefix="mutwt_", dir="/tmp")
os.rmdir(wt)
subprocess.run(["git", "-C", "/repo", "worktree", "add", "-q", "--detach", wt, "HEAD"], check=True)
try:
    if patch:
        r = subprocess.run(["git", "-C", wt, "apply", patch], capture_output=True, text=True)
        if r.returncode:
            sys.exit("patch does not apply: " + r.stderr)
    else:
        rel, old, new = args[1:4]
        path = os.path.join(wt, rel)
        src = open(path).read()
        nth = 1
        m = re.match(r"@(\d+):", old)
        if m:
            nth = int(m.group(1))
            old = old[m.end() :]
        pos = -1
        for _ in range(nth):
            pos = src.find(old, pos + 1)
            if pos < 0:
                sys.exit("old string not found (occurrence %d)" % nth)
        open(path, "w").write(src[:pos] + new + src[pos + len(old) :])
    if suite:
        r = subprocess.run(
            "cd %s && /venv/bin/python -m pytest -q -p no:cacheprovider --timeout=900 --continue-on-collection-errors --deselect tests/test_integration.py 2>&1 | tail -3" % wt,
            shell=True,
            capture_output=True,
            text=True,
        )
        print("SUITE:", r.stdout.strip().splitlines()[-1] if r.stdout.strip() else r.stderr[-300:])
    env = dict(os.environ, VERIF_REPO=wt)
    procs = {}
    # run the checks a few at a time (each is itself 16-way parallel)
    for cid in ids:
        r = subprocess.run(["/verif/check", cid, "--tier", tier], capture_output=True, text=True, env=env)
        lines = [l for l in r.stdout.splitlines() if "signature=" in l or "KNOWN" in l]
        print("%s exit=%d" % (cid, r.returncode), "|", " ;; ".join(l.strip()[:170] for l in lines[:4]))
        if r.returncode not in (0, 1):
            print(r.stderr[-1200:])
finally:
    subprocess.run(["git", "-C", "/repo", "worktree", "remove", "--force", wt])
    subprocess.run(["rm", "-rf", os.path.join("/tmp/verif_scratch", os.path.basename(wt))])
