#!/usr/bin/env python3
"""tools/benign_targeted.py <plan.json> [--jobs N]: re-run selected checks (plan: {benign name: [check ids]}) against filed
property-preserving changes with the CURRENT checks and /repo HEAD; results go to meta.json under "rerun" (never to /repo)."""
import json, os, subprocess, sys, tempfile, time
from concurrent.futures import ThreadPoolExecutor
plan = json.load(open(sys.argv[1]))
jobs = int(sys.argv[sys.argv.index("--jobs") + 1]) if "--jobs" in sys.argv else 2
head = subprocess.run(["git", "-C", "/verif", "rev-parse", "--short", "HEAD"], capture_output=True, text=True).stdout.strip()
rhead = subprocess.run(["git", "-C", "/repo", "rev-parse", "--short", "HEAD"], capture_output=True, text=True).stdout.strip()

def one(item):
    name, checks = item
    d = "/verif/benign/%s" % name
    wt = tempfile.mkdtemp(prefix="bent_", dir="/tmp"); os.rmdir(wt)
    subprocess.run(["git", "-C", "/repo", "worktree", "add", "-q", "--detach", wt, "HEAD"], check=True)
    out = {}
    try:
        r = subprocess.run(["git", "-C", wt, "apply", d + "/patch.diff"], capture_output=True, text=True)
        if r.returncode:
            out = {"skipped": "patch does not apply to /repo %s (written before a later fix)" % rhead}
        else:
            for c in checks:
                t0 = time.time()
                r = subprocess.run(["/verif/check", c], capture_output=True, text=True, env=dict(os.environ, VERIF_REPO=wt))
                sigs = [l.strip()[:300] for l in r.stdout.splitlines() if l.strip().startswith("signature=")]
                out[c] = {"exit": r.returncode, "signatures": sigs[:4], "wall_s": round(time.time() - t0, 1), "verif_commit": head, "repo_commit": rhead}
                if r.returncode not in (0, 1):
                    out[c]["tail"] = (r.stdout[-300:] + r.stderr[-500:])
    finally:
        subprocess.run(["git", "-C", "/repo", "worktree", "remove", "--force", wt])
    m = json.load(open(d + "/meta.json"))
    m.setdefault("rerun", {}).update(out)
    json.dump(m, open(d + "/meta.json", "w"), indent=1)
    bad = {c: v for c, v in out.items() if isinstance(v, dict) and v.get("exit", 0) != 0}
    print(name, {c: (v.get("exit") if isinstance(v, dict) else v) for c, v in out.items()}, ("  <<<< " + json.dumps(bad)[:500]) if bad else "", flush=True)

with ThreadPoolExecutor(jobs) as ex:
    list(ex.map(one, sorted(plan.items())))
