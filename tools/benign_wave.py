#!/usr/bin/env python3
"""tools/benign_wave.py <out_dir> <prefix> [k ...]: file patchK.diff/notesK.json of one sub-agent as benign/<prefix>-K, running the checks
of every property anchored in a touched file (plus the 'near' property)."""
import json, os, re, subprocess, sys
out, prefix = sys.argv[1], sys.argv[2]
ks = sys.argv[3:] or [str(i) for i in range(1, 9)]
props = [json.loads(l) for l in open("/verif/properties.jsonl")]
for k in ks:
    patch = os.path.join(out, "patch%s.diff" % k)
    if not os.path.exists(patch):
        print(prefix, k, "MISSING"); continue
    try:
        notes = json.load(open(os.path.join(out, "notes%s.json" % k)))
    except Exception:
        notes = {}
    files = re.findall(r"^\+\+\+ b/(\S+)", open(patch).read(), re.M)
    full = sorted({p["id"] for p in props for f in files if f in p["anchors"]["files"]} | ({notes.get("near")} if notes.get("near") else set()))
    cap = int(os.environ.get("BENIGN_CAP", "0"))
    if cap:
        # time-boxed run: the 'near' property first, then the properties for which a touched file is a primary anchor
        prim = [p["id"] for p in props for f in files if f in p["anchors"]["files"][:2]]
        order = ([notes["near"]] if notes.get("near") else []) + prim + full
        checks = sorted(list(dict.fromkeys(order))[:cap])
    else:
        checks = full
    if os.path.exists("/verif/benign/%s-%s/meta.json" % (prefix, k)):
        print(prefix, k, "already filed"); continue
    summary = (notes.get("summary", "") + (" [behaviour visible]" if notes.get("behaviour_visible") else ""))[:400]
    r = subprocess.run(["/venv/bin/python", "/verif/tools/benign_ingest.py", "%s-%s" % (prefix, k), patch, "--near", notes.get("near", ""), "--summary", summary, "--checks", ",".join(checks), "--jobs", "3"], capture_output=True, text=True)
    if "REJECT: patch does not apply" in r.stdout:
        r = subprocess.run(["/venv/bin/python", "/verif/tools/benign_ingest.py", "%s-%s" % (prefix, k), patch, "--near", notes.get("near", ""), "--summary", summary, "--checks", ",".join(checks), "--jobs", "3", "--base", "173aeca"], capture_output=True, text=True)
    lines = [l for l in r.stdout.splitlines() if l.startswith(("FILED", "REJECT", "  C"))]
    print(prefix, k, checks, " | ".join(lines) or (r.stdout + r.stderr)[-300:], flush=True)
