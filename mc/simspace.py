"""Shared alphabets and drivers for every check that runs the real Simulator.

Nothing here samples: the helpers build networks / sessions / schedulers from small
JSON-able descriptors, run the REAL acnportal Simulator on them and record what the
oracles need (per-period state through the library's own post_charging_update
extension point, per-invocation state through a wrapping scheduler).
"""
from __future__ import annotations

from mc.core import guard
import copy
import itertools
import warnings
from datetime import datetime

import numpy as np

from acnportal.acnsim import Simulator
from acnportal.acnsim.events import EventQueue, PluginEvent, RecomputeEvent, UnplugEvent
from acnportal.acnsim.models import EV, Battery, Linear2StageBattery
from acnportal.acnsim.models.evse import EVSE, DeadbandEVSE, FiniteRatesEVSE
from acnportal.acnsim.network import ChargingNetwork, Current
from acnportal.algorithms import BaseAlgorithm

START = datetime(2020, 1, 6, 8, 0, 0)  # a Monday, naive (the JSON dump drops tzinfo)

# ----------------------------------------------------------------------------
# network templates
# ----------------------------------------------------------------------------
# station: id -> (evse spec, voltage, phase angle)
# evse spec: ("cont", min, max) | ("dead", deadband_end, max) | ("fin", [levels])
F8 = [8, 16, 24, 32]
F6 = list(range(6, 33))
NETS = {
    "N0": {
        "stations": {"PS-A": (("cont", 0, 32), 208, 0)},
        "constraints": [],
    },
    "N1": {
        "stations": {"PS-A": (("cont", 0, 32), 208, 0), "PS-B": (("fin", F8), 208, 0)},
        "constraints": [("pod", {"PS-A": 1, "PS-B": 1}, 40.0)],
    },
    "N2": {
        "stations": {
            "PS-A": (("cont", 0, 32), 208, 30),
            "PS-B": (("fin", F8), 208, -90),
            "PS-C": (("fin", F6), 240, 150),
        },
        "constraints": [
            ("pod", {"PS-A": 1, "PS-B": 1}, 40.5),
            ("la", {"PS-A": 1, "PS-C": -1}, 30.3),
            ("lb", {"PS-B": 1, "PS-A": -1}, 30.3),
            ("lc", {"PS-C": 1, "PS-B": -1}, 30.3),
        ],
    },
    # N3: deadband EVSE next to continuous and finite ones (scripted schedulers only)
    "N3": {
        "stations": {
            "PS-A": (("dead", 6, 32), 208, 30),
            "PS-B": (("cont", 0, 32), 208, -90),
            "PS-C": (("fin", F6), 240, 150),
        },
        "constraints": [
            ("pod", {"PS-A": 1, "PS-B": 1}, 40.5),
            ("la", {"PS-A": 1, "PS-C": -1}, 30.3),
            ("lb", {"PS-B": 1, "PS-A": -1}, 30.3),
            ("lc", {"PS-C": 1, "PS-B": -1}, 30.3),
        ],
    },
    # N4: two continuous EVSEs + one finite on three phases, generous limits except one line
    "N4": {
        "stations": {
            "PS-A": (("cont", 0, 32), 208, 30),
            "PS-B": (("cont", 0, 32), 240, -90),
            "PS-C": (("fin", F8), 208, 150),
        },
        "constraints": [
            ("la", {"PS-A": 1, "PS-C": -1}, 41.3),
            ("lb", {"PS-B": 1, "PS-A": -1}, 37.7),
            ("tot", {"PS-A": 0.25, "PS-B": 0.25, "PS-C": 0.25}, 20.2),
        ],
    },
    # N5: distinct EVSE maxima (32/20/24) and voltages: discriminates laxity / processing-time keys
    "N5": {
        "stations": {
            "PS-A": (("cont", 0, 32), 208, 30),
            "PS-B": (("cont", 0, 20), 240, -90),
            "PS-C": (("fin", [6, 12, 18, 24]), 208, 150),
        },
        "constraints": [
            ("la", {"PS-A": 1, "PS-C": -1}, 33.7),
            ("lb", {"PS-B": 1, "PS-A": -1}, 29.9),
            ("pa", {"PS-A": 0.25, "PS-B": 0.25, "PS-C": -0.5}, 9.3),
        ],
    },
    # N7: currents that cancel: a feeder-unbalance limit |I_A - I_B| on two same-phase stations and a tight
    # neutral-current limit on the wye panel - raising ONE station is infeasible where raising two or three
    # together is feasible (joint moves must not replace one-at-a-time moves)
    "N7": {
        "stations": {
            "PS-A": (("fin", F6), 208, 30),
            "PS-B": (("cont", 0, 32), 208, 30),
            "PS-C": (("fin", F8), 208, 150),
        },
        "constraints": [
            ("unb", {"PS-A": 1, "PS-B": -1}, 5.3),
            ("la", {"PS-A": 1, "PS-B": 1, "PS-C": -1}, 70.3),
            ("lc", {"PS-C": 1}, 25.1),
        ],
    },
    # N8: six stations, no constraint (event-order scenarios with many sessions)
    "N8": {
        "stations": {"PS-%d" % i: (("cont", 0, 32), 208, 0) for i in range(1, 7)},
        "constraints": [],
    },
    # N12: constraint coefficients of magnitude above 1 (a feeder that counts one station twice, a 1.5-weighted line)
    "N12": {
        "stations": {
            "PS-A": (("cont", 0, 32), 208, 30),
            "PS-B": (("fin", F8), 208, 30),
            "PS-C": (("cont", 0, 32), 240, -90),
        },
        "constraints": [
            ("feed", {"PS-A": 2, "PS-B": 1, "PS-C": 1}, 60.3),
            ("lb", {"PS-B": 1.5, "PS-C": -1}, 33.3),
        ],
    },
    # N13: N2 with a two-level finite-rate EVSE (off / 16 A) in place of PS-B
    "N13": {
        "stations": {
            "PS-A": (("cont", 0, 32), 208, 30),
            "PS-B": (("fin", [16]), 208, -90),
            "PS-C": (("fin", F6), 240, 150),
        },
        "constraints": [
            ("pod", {"PS-A": 1, "PS-B": 1}, 40.5),
            ("la", {"PS-A": 1, "PS-C": -1}, 30.3),
            ("lb", {"PS-B": 1, "PS-A": -1}, 30.3),
            ("lc", {"PS-C": 1, "PS-B": -1}, 30.3),
        ],
    },
    # N11: finite-rate EVSEs; two constraints on the SAME aggregate current with different limits (the looser one first)
    # and a pod so tight that the minimum rates of A and B (8 + 6 A) do not fit together
    "N11": {
        "stations": {
            "PS-A": (("fin", F8), 208, 30),
            # same minimum and maximum as PS-A's 8/16/24/32, other steps in between
            "PS-B": (("fin", [8, 20, 32]), 240, 30),
            "PS-C": (("fin", [8, 20, 32]), 208, -90),
        },
        "constraints": [
            ("podL", {"PS-A": 1, "PS-B": 1}, 55.0),
            ("lc", {"PS-C": 1, "PS-B": -1}, 33.1),
            # involves EVERY station with non-uniform coefficients (it is the first constraint in some insertion orders)
            ("tot", {"PS-A": 0.5, "PS-B": 1, "PS-C": -0.25}, 12.3),
            ("pod", {"PS-A": 1, "PS-B": 1}, 13.1),
            # caps PS-C between its own steps (20) and PS-A's (24)
            ("capC", {"PS-C": 1}, 25.1),
        ],
    },
    # N10: single phase - every station at the same phase angle - with a mixed-sign (feeder unbalance) constraint
    "N10": {
        "stations": {
            "PS-A": (("cont", 0, 32), 208, 0),
            "PS-B": (("fin", F8), 208, 0),
            "PS-C": (("cont", 0, 32), 240, 0),
        },
        "constraints": [
            ("unb", {"PS-A": 1, "PS-B": -1}, 12.3),
            ("sum", {"PS-A": 1, "PS-B": 1, "PS-C": 1}, 60.7),
        ],
    },
    # N14: a site entirely on ONE phase with a non-zero angle (all currents share the factor exp(-i 120 deg))
    "N14": {
        "stations": {
            "PS-A": (("cont", 0, 32), 208, -120),
            "PS-B": (("cont", 0, 32), 208, -120),
            "PS-C": (("cont", 0, 32), 240, -120),
        },
        "constraints": [
            ("unb", {"PS-A": 1, "PS-B": -1}, 12.3),
            ("sum", {"PS-A": 1, "PS-B": 1, "PS-C": 1}, 60.7),
            ("lc", {"PS-C": 1, "PS-A": -0.5}, 30.1),
        ],
    },
    # N16: a finite-rate EVSE whose levels are NOT whole amperes (steps of 7.5 A) under a pod that makes it stop at one of them
    "N16": {
        "stations": {
            "PS-A": (("cont", 0, 32), 208, 30),
            "PS-B": (("fin", [7.5, 15, 22.5, 30]), 208, 30),
            "PS-C": (("fin", F6), 240, -90),
        },
        "constraints": [
            ("pod", {"PS-A": 1, "PS-B": 1}, 47.3),
            ("lb", {"PS-B": 1, "PS-C": -1}, 36.1),
        ],
    },
    # N9: an EVSE WITHOUT a maximum rate (EVSE(id): max = inf) next to a pod whose breaker does not involve it
    "N9": {
        "stations": {
            "PS-A": (("cont", 0, float("inf")), 208, 30),
            "PS-B": (("cont", 0, 32), 208, -90),
            "PS-C": (("fin", F8), 208, -90),
        },
        "constraints": [
            ("pod", {"PS-B": 1, "PS-C": 1}, 40.5),
            ("la", {"PS-A": 1, "PS-C": -1}, 90.3),
        ],
    },
    # N6: finite-rate EVSEs only (the sorted algorithms' decisions are then level choices, never bisection results)
    "N6": {
        "stations": {
            "PS-A": (("fin", F8), 208, 30),
            "PS-B": (("fin", [6, 12, 18, 24, 30]), 240, -90),
            "PS-C": (("fin", F6), 208, 150),
        },
        "constraints": [
            ("pod", {"PS-A": 1, "PS-B": 1}, 40.5),
            ("la", {"PS-A": 1, "PS-C": -1}, 30.3),
            ("lb", {"PS-B": 1, "PS-A": -1}, 33.1),
            ("lc", {"PS-C": 0.5, "PS-B": -0.5}, 13.7),
        ],
    },
}


def make_evse(station_id, spec):
    kind = spec[0]
    if kind == "cont":
        return EVSE(station_id, max_rate=spec[2], min_rate=spec[1])
    if kind == "dead":
        return DeadbandEVSE(station_id, deadband_end=spec[1], max_rate=spec[2])
    if kind == "fin":
        return FiniteRatesEVSE(station_id, list(spec[1]))
    raise ValueError(spec)


def spec_accepts(spec, pilot, atol=1e-3):
    """the acceptance set of an EVSE template, from its SPEC (independent of the library's own predicate)"""
    kind = spec[0]
    if kind == "cont":
        return spec[1] - atol <= pilot <= spec[2] + atol
    if kind == "dead":
        return abs(pilot) <= atol or spec[1] - atol <= pilot <= spec[2] + atol
    return any(abs(pilot - r) <= atol for r in [0] + list(spec[1]))


def spec_max_rate(spec):
    return float(spec[2]) if spec[0] in ("cont", "dead") else float(max([0] + list(spec[1])))


def spec_min_rate(spec):
    if spec[0] == "cont":
        return float(spec[1])
    if spec[0] == "dead":
        return float(spec[1])
    pos = [r for r in spec[1] if r > 0]
    return float(min(pos)) if pos else 0.0


class MonNet(ChargingNetwork):
    """ChargingNetwork whose (library-provided) per-period extension point records state."""

    def post_charging_update(self):
        super().post_charging_update()
        mon = getattr(self, "_mon", None)
        if mon is not None:
            mon(self)


_NET_CACHE = {}


def build_network(name, order=None, corder=None, cls=MonNet, limits=None, unnamed=False, hist=None, **kw):
    """Fresh network from template `name`; `order` permutes station registration,
    `corder` permutes constraint insertion, `limits` overrides constraint limits by name.
    `hist` reaches the same constraint set through an edit history instead of directly:
    "aux" - an auxiliary constraint is added after the first one, queried once, and removed at the end;
    "upd" - every constraint is first added with twice its limit and the wrong sign pattern, queried once,
            then corrected with update_constraint (which re-appends it)."""
    key = (name, tuple(order or ()), tuple(corder or ()), cls, tuple(sorted((limits or {}).items())), unnamed, hist, tuple(sorted(kw.items())))
    tpl = _NET_CACHE.get(key)
    if tpl is None:
        spec = NETS[name]
        st_ids = list(order) if order else list(spec["stations"])
        assert sorted(st_ids) == sorted(spec["stations"])
        tpl = cls(**kw)
        for sid in st_ids:
            es, v, ang = spec["stations"][sid]
            tpl.register_evse(make_evse(sid, es), v, ang)
        cons = spec["constraints"]
        idx = list(corder) if corder else list(range(len(cons)))
        with warnings.catch_warnings():
            warnings.simplefilter("ignore")
            for i in idx:
                cname, coefs, lim = cons[i]
                if limits and cname in limits:
                    lim = limits[cname]
                # unnamed: the network invents positional names (_const_0, ...), which then denote DIFFERENT
                # constraints in differently ordered builds
                if hist == "upd" and not unnamed:
                    tpl.add_constraint(Current({k: abs(c) for k, c in coefs.items()}), 2 * lim, name=cname)
                else:
                    tpl.add_constraint(Current(dict(coefs)), lim, name=None if unnamed else cname)
                if hist == "aux" and i == idx[0]:
                    tpl.add_constraint(Current({st_ids[0]: 1, st_ids[-1]: 1}), 999.0, name="aux")
            if hist in ("aux", "upd") and tpl.constraint_index:
                # a query in the intermediate state (anything cached per constraint set is now stale)
                zero = np.zeros((len(st_ids), 1))
                tpl.is_feasible(zero)
                for cname_ in list(tpl.constraint_index):
                    tpl.constraint_current(zero, constraints=[cname_])
            if hist == "aux":
                tpl.remove_constraint("aux")
            if hist == "upd" and not unnamed:
                # corrected in REVERSE order: every row ends up at another position than the one it was queried at
                for i in reversed(idx):
                    cname, coefs, lim = cons[i]
                    if limits and cname in limits:
                        lim = limits[cname]
                    tpl.update_constraint(cname, Current(dict(coefs)), lim, cname)
        _NET_CACHE[key] = tpl
    return copy.deepcopy(tpl)


# ----------------------------------------------------------------------------
# sessions
# ----------------------------------------------------------------------------
def make_battery(s):
    b = s.get("batt", "ideal")
    cap, init, pmax = s.get("cap", 100.0), s.get("init", 0.0), s.get("pmax", 7.0)
    if b == "ideal":
        return Battery(cap, init, pmax)
    calc = "continuous" if b == "l2c" else "stepwise"
    return Linear2StageBattery(cap, init, pmax, noise_level=s.get("noise", 0), transition_soc=s.get("tsoc", 0.8), charge_calculation=calc)


def make_ev(s):
    return EV(s["a"], s["d"], s["e"], s["st"], s["sid"], make_battery(s), estimated_departure=s.get("ed"))


def no_overlap(sessions):
    by = {}
    for s in sessions:
        by.setdefault(s["st"], []).append((s["a"], s["d"]))
    for iv in by.values():
        iv.sort()
        for (a1, d1), (a2, d2) in zip(iv, iv[1:]):
            if a2 < d1:
                return False
    return True


def session_subsets(pool, kmin, kmax):
    """all k-subsets (kmin<=k<=kmax) of the session pool without overlap on a station"""
    for k in range(kmin, kmax + 1):
        for combo in itertools.combinations(range(len(pool)), k):
            ss = [pool[i] for i in combo]
            if no_overlap(ss):
                yield [dict(s, sid="ev%d" % j) for j, s in enumerate(ss)]


# ----------------------------------------------------------------------------
# schedulers
# ----------------------------------------------------------------------------
class Scripted(BaseAlgorithm):
    """Scheduler whose answer is a function of the period only (a table or a named rule)."""

    def __init__(self, prog=None, max_recompute=None):
        super().__init__()
        self.prog = prog if prog is not None else {"rule": "max", "len": 1}
        self.max_recompute = max_recompute

    def schedule(self, active_sessions):
        t = self.interface.current_time
        p = self.prog
        if "table" in p:
            ent = p["table"].get(str(t), p["table"].get("*", {}))
            return materialise(ent)
        net = self.interface._simulator.network
        L = p.get("len", 1)
        if p.get("lookahead"):
            # a look-ahead scheduler: test-charges the EV objects the (deprecated, but public) active_evs accessor
            # hands out - documented to be copies, so the simulation must not notice
            with warnings.catch_warnings():
                warnings.simplefilter("ignore")
                for ev in self.interface.active_evs:
                    for _ in range(3):
                        ev.charge(float(net._EVSEs[ev.station_id].max_rate), self.interface.evse_voltage(ev.station_id), self.interface.period)
        if p["rule"] == "max":  # every station (occupied or not) at its maximum pilot
            return {s: [float(net._EVSEs[s].max_rate)] * L for s in net.station_ids}
        if p["rule"] == "half":  # a level every EVSE class of the templates accepts
            return {s: [16.0] * L for s in net.station_ids}
        if p["rule"] == "alt":  # period-dependent level, addresses every station
            lv = [8.0, 16.0, 24.0, 32.0][t % 4]
            return {s: [lv] * L for s in net.station_ids}
        if p["rule"] == "altcol":  # level is a function of the COLUMN it is written to (time-shift invariant with t0)
            t0 = p.get("t0", 0)
            return {s: [[8.0, 16.0, 24.0, 32.0][(t + j - t0 + (i if p.get("skew") else 0)) % 4] for j in range(L)] for i, s in enumerate(sorted(net.station_ids))}
        if p["rule"] == "active-max":
            return {s.station_id: [float(net._EVSEs[s.station_id].max_rate)] * L for s in active_sessions}
        if p["rule"] == "nearmax":  # just inside the EVSE's acceptance tolerance below its maximum (every EVSE class accepts it)
            return {s: [float(net._EVSEs[s].max_rate) - 5e-4] * L for s in net.station_ids}
        if p["rule"] == "zeromax":  # 0 A in even periods, the maximum in odd ones (a delayed / pulsed start)
            return {s: [0.0 if (t + j) % 2 == 0 else float(net._EVSEs[s].max_rate) for j in range(L)] for s in net.station_ids}
        if p["rule"] == "empty":
            return {}
        raise ValueError(p)


def materialise(ent):
    """table entry -> schedule dict; value kinds let the alphabet carry numpy / int rows"""
    out = {}
    for st, row in ent.items() if isinstance(ent, dict) else ent:
        if isinstance(row, dict):
            vals, kind = row["v"], row.get("as", "float")
            if kind == "int":
                out[st] = [int(x) for x in vals]
            elif kind == "np64":
                out[st] = [np.float64(x) for x in vals]
            elif kind == "ndarray":
                out[st] = np.array(vals, dtype=float)
            elif kind == "intarr":
                out[st] = np.array(vals, dtype=int)
            else:
                out[st] = [float(x) for x in vals]
        else:
            out[st] = list(row)
    return out


SORTS = ("fcfs", "lcfs", "edf", "llf", "lrpt")


def _loose_estimator_class():
    from acnportal.algorithms.upper_bound_estimator import UpperBoundEstimatorBase

    class LooseEstimator(UpperBoundEstimatorBase):
        """a user-written estimator (the documented extension point): it knows the on-board charger limit of every
        second vehicle only (40 A, above any EVSE's maximum) and says nothing about the others"""

        def __init__(self):
            super().__init__()
            self.upper_bounds = {}

        def get_maximum_rates(self, sessions):
            self.upper_bounds = {s.session_id: 40.0 for k, s in enumerate(sorted(sessions, key=lambda x: x.session_id)) if k % 2 == 0}
            return dict(self.upper_bounds)

    return LooseEstimator


def LooseEstimator():
    return _loose_estimator_class()()


def make_algorithm(spec):
    from acnportal.algorithms import (
        SortedSchedulingAlgo,
        RoundRobin,
        UncontrolledCharging,
        first_come_first_served,
        last_come_first_served,
        earliest_deadline_first,
        least_laxity_first,
        largest_remaining_processing_time,
    )
    from acnportal.algorithms.upper_bound_estimator import SimpleRampdown

    kind = spec["kind"]
    if kind == "script":
        return Scripted(spec.get("prog"), spec.get("k"))
    if kind == "unc":
        return UncontrolledCharging()
    sort = {
        "fcfs": first_come_first_served,
        "lcfs": last_come_first_served,
        "edf": earliest_deadline_first,
        "llf": least_laxity_first,
        "lrpt": largest_remaining_processing_time,
    }[spec.get("sort", "fcfs")]
    # est: True -> the default rampdown estimator; "ramp0" -> one that never probes upwards (its bound can be exactly 0)
    est = (SimpleRampdown(up_increment=0) if spec.get("est") == "ramp0" else SimpleRampdown()) if spec.get("est") else None
    if spec.get("est") == "loose":
        est = LooseEstimator()
    if kind == "greedy":
        return SortedSchedulingAlgo(sort, estimate_max_rate=bool(est), max_rate_estimator=est, uninterrupted_charging=bool(spec.get("unint")))
    if kind == "rr":
        return RoundRobin(sort, estimate_max_rate=bool(est), max_rate_estimator=est, uninterrupted_charging=bool(spec.get("unint")), continuous_inc=spec.get("inc", 1))
    raise ValueError(spec)


class Recorder(BaseAlgorithm):
    """Wraps a real scheduler; records every invocation; optional callback before the call."""

    def __init__(self, inner, on_call=None, on_return=None, peek=False):
        super().__init__()
        self.peek = peek
        self.inner = inner
        self.max_recompute = inner.max_recompute
        self.on_call = on_call
        self.on_return = on_return
        self.calls = []

    def register_interface(self, interface):
        self._interface = interface
        self.inner.register_interface(interface)
        if getattr(self, "peek", False):
            # a scheduler program may query its interface as soon as it has one (before any event was applied)
            self.peeked = (len(interface.active_sessions()), dict(interface.last_actual_charging_rate), interface.current_time)

    def schedule(self, active_sessions):
        rec = {"t": self.interface.current_time}
        self.calls.append(rec)
        if self.on_call is not None:
            self.on_call(self, active_sessions, rec)
        out = self.inner.schedule(active_sessions)
        rec["out"] = out
        if self.on_return is not None:
            out = self.on_return(self, active_sessions, rec, out)
        return out


class Watchdog(Exception):
    pass


# ----------------------------------------------------------------------------
# running one scenario
# ----------------------------------------------------------------------------
class Trace:
    pass


def horizon_of(scn):
    ts = [s["d"] for s in scn["sessions"]] + list(scn.get("recompute", []))
    return (max(ts) if ts else 0)


def build_sim(scn, algo=None, on_call=None, on_return=None, net_cls=MonNet, monitor=True, store_history=False, peek=False, reuse=None, net=None):
    """scenario descriptor -> (sim, recorder, evs, periods-log); `reuse` maps session ids to EV objects of an
    earlier run, which are reset() and used again instead of fresh ones"""
    if net is None:  # (`net`: a network OBJECT that already served an earlier simulation and is used again)
        net = build_network(scn["net"], scn.get("order"), scn.get("corder"), cls=net_cls, limits=scn.get("limits"), unnamed=bool(scn.get("unnamed")), hist=scn.get("hist"))
    evs = {}
    batteries = {}
    events = []
    order = scn.get("sorder") or range(len(scn["sessions"]))
    for i in order:
        s = scn["sessions"][i]
        if reuse is not None:
            ev = reuse[s["sid"]]
            ev.reset()
        else:
            # "batt_of": the same vehicle on a later visit - this session's EV is built around the Battery OBJECT of an earlier one
            batt = batteries[s["batt_of"]] if s.get("batt_of") is not None else make_battery(s)
            batteries[s["sid"]] = batt
            ev = EV(s["a"], s["d"], s["e"], s["st"], s["sid"], batt, estimated_departure=s.get("ed"))
        evs[s["sid"]] = ev
        # "pt": the plug-in EVENT may carry another timestamp than the EV's nominal arrival (driver early / late)
        events.append(PluginEvent(s.get("pt", s["a"]), ev))
        if s.get("xu") is not None:
            # the user queues an explicit early unplug; the simulator's own unplug at the departure is then a no-op EVENT
            events.append(UnplugEvent(s["xu"], ev))
    for t in scn.get("recompute", []):
        events.append(RecomputeEvent(t))
        if scn.get("rc_prec") is not None:
            events[-1].precedence = scn["rc_prec"]  # a user-chosen precedence (public attribute of the event)
    if scn.get("rc_first"):
        # the caller lists its recompute requests BEFORE the plug-ins (listing order is incidental)
        events = [e for e in events if isinstance(e, RecomputeEvent)] + [e for e in events if not isinstance(e, RecomputeEvent)]
    inner = algo if algo is not None else make_algorithm(scn["sched"])
    rec = Recorder(inner, on_call, on_return, peek=peek)
    if "k" in scn:
        rec.max_recompute = scn["k"]
    # two-phase histories: events due at or after the split are held back and queued (public add_events) only after
    # the first run() has returned
    split = scn.get("two_phase")
    rec.later = [e for e in events if split is not None and e.timestamp >= split]
    if split is not None:
        events = [e for e in events if e.timestamp < split]
    queue_after = bool(scn.get("queue_after"))
    q0 = EventQueue() if queue_after else EventQueue(events)
    sim = Simulator(net, rec, q0, START, period=scn.get("period", 1), verbose=False, store_schedule_history=store_history, signals=scn.get("signals"))
    if queue_after:
        # the caller keeps its (still empty) queue object, hands it to the simulator and fills it afterwards
        q0.add_events(events)
    periods = []
    if monitor and isinstance(net, MonNet):
        hz = horizon_of(scn) + 3

        def mon(n):
            t = sim._iteration
            if t > hz:
                raise Watchdog("simulation still running at period %d (last event at %d)" % (t, hz - 3))
            periods.append(
                {
                    "t": t,
                    "occ": {sid: (e.ev.session_id if e.ev is not None else None) for sid, e in n._EVSEs.items()},
                    "energy": {k: v.energy_delivered for k, v in evs.items()},
                    "charge": {k: v._battery._current_charge for k, v in evs.items()},
                    "pilot": {sid: e.current_pilot for sid, e in n._EVSEs.items()},
                    "rate": {sid: (e.ev.current_charging_rate if e.ev is not None else 0) for sid, e in n._EVSEs.items()},
                }
            )

        net._mon = mon
    return sim, rec, evs, periods


def run_sim(scn, **kw):
    """Run the real simulator on the scenario; never raises: errors are part of the trace."""
    tr = Trace()
    tr.scn = scn
    tr.error = None
    with warnings.catch_warnings(record=True) as wlog:
        warnings.simplefilter("always")
        sim, rec, evs, periods = build_sim(scn, **kw)
        tr.sim, tr.rec, tr.evs, tr.periods = sim, rec, evs, periods
        try:
            sim.run()
        except Exception as exc:  # noqa
            guard(exc)
            tr.error = exc
    tr.warnings = [w for w in wlog if "pkg_resources" not in str(w.message)]
    return tr


def events_key(sim):
    out = []
    for e in sim.event_history:
        out.append((e.event_type, e.timestamp, getattr(getattr(e, "ev", None), "session_id", None)))
    return out


# ----------------------------------------------------------------------------
# owned nondeterminism: battery noise (numpy.random.normal inside battery.py only)
# ----------------------------------------------------------------------------
class _Rand:
    def __init__(self, chooser):
        self._chooser = chooser

    def normal(self, loc=0.0, scale=1.0, size=None):
        return loc + scale * self._chooser()

    def __getattr__(self, name):  # anything else would be un-owned randomness
        raise AttributeError("un-owned numpy.random.%s used by battery model" % name)


class _NPShim:
    def __init__(self, chooser):
        self.random = _Rand(chooser)

    def __getattr__(self, name):
        return getattr(np, name)


class owned_noise:
    """with owned_noise(chooser): battery.py's `np.random.normal(0, s)` returns s*chooser()"""

    def __init__(self, chooser):
        self.chooser = chooser

    def __enter__(self):
        from acnportal.acnsim.models import battery as _b

        self._b = _b
        self._old = _b.np
        _b.np = _NPShim(self.chooser)
        return self

    def __exit__(self, *a):
        self._b.np = self._old


def cyclic(pattern):
    state = {"i": 0}

    def ch():
        v = pattern[state["i"] % len(pattern)]
        state["i"] += 1
        return v

    return ch
