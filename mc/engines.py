"""Generic exploration engines.

CHOICE: stateless depth-first search over owned choice points (CHESS style), with an
optional deviation bound (number of non-default answers). `body(chooser)` is executed
from scratch for every explored choice sequence; the chooser replays a prefix and then
answers 0 (the default) at every later point. An out-of-range choice while replaying a
prefix is a hard error (the execution diverged from the one that produced the prefix).
"""
from __future__ import annotations


class ReplayDivergence(Exception):
    pass


class Chooser:
    def __init__(self, prefix=()):
        self.prefix = list(prefix)
        self.trace = []  # (choice, arity)

    def choose(self, n, label=None):
        i = len(self.trace)
        c = self.prefix[i] if i < len(self.prefix) else 0
        if not 0 <= c < n:
            raise ReplayDivergence("choice point %d: prefix wants %d but arity is %d" % (i, c, n))
        self.trace.append((c, n))
        return c

    @property
    def choices(self):
        return [c for c, _ in self.trace]

    @property
    def deviations(self):
        return sum(1 for c, _ in self.trace if c != 0)


def explore_choices(body, bound=None, max_exec=None):
    """Yield (choices, result) for every execution; complete within `bound` deviations.
    Returns via StopIteration nothing; caller counts. If max_exec is hit the generator
    yields a final ('CAPPED', None)."""
    stack = [[]]
    n = 0
    while stack:
        prefix = stack.pop()
        ch = Chooser(prefix)
        res = body(ch)
        n += 1
        yield ch.choices, res
        if max_exec is not None and n >= max_exec:
            if stack:
                yield "CAPPED", None
            return
        tr = ch.trace
        dev = sum(1 for c in prefix if c != 0)
        # alternatives only at points after the prefix (earlier ones were pushed by ancestors)
        d = dev
        for i in range(len(prefix), len(tr)):
            arity = tr[i][1]
            if bound is None or d + 1 <= bound:
                base = [c for c, _ in tr[:i]]
                for alt in range(1, arity):
                    stack.append(base + [alt])
            # tr[i] itself is the default (0) beyond the prefix: d unchanged
