"""C11 - EventQueue returns events by time then precedence, for every interleaving.

Explicit-state breadth-first search over operation sequences of the REAL
acnportal EventQueue, with a sorted-list reference model evaluated on every
transition and the observers (len / empty / get_last_timestamp) in every state.
A JSON round trip is an operation: the restored queue continues *next to* its
original (twin) and every later operation must return identical results on both.
"""
from __future__ import annotations

import warnings

from acnportal.acnsim.events import EventQueue, PluginEvent, UnplugEvent, RecomputeEvent
from acnportal.acnsim.models import EV, Battery

from mc.core import Acc, h64, guard

ID = "C11"
LEVEL = "model_checking"
TECHNIQUE = "explicit-state BFS over EventQueue operation sequences on the real class, sorted-list reference model + twin (original vs JSON-restored) differential"
RULE = (
    "BFS from the empty queue over add_event(ts,kind)/add_events(pair)/get_event/get_current_events(t)/JSON-round-trip; "
    "a state is the heap array as (timestamp,precedence) tuples + twin flag; every transition is checked against a sorted-list model, "
    "observers in every state; non-trivial = state holds >=2 pending events of which two share a timestamp"
)
ASSUMPTIONS = [
    "events are PluginEvent/UnplugEvent/RecomputeEvent with the library's precedences; timestamps from a small integer alphabet",
    "canonical state drops _timestep (no method reads it before overwriting it) and event identities (heap behaviour depends on (ts,precedence) only)",
    "bounded depth: behaviours needing longer operation sequences are outside the guarantee",
    "third shape ('ident'): every add sequence of length 4 (thorough 5) over timestamps {0,1} x {unplug, plug-in} x two sessions (+recompute), optional JSON dump, drained by get_event / get_current_events",
    "fifth shape ('deep'): 12 (thorough 16) pending events inserted in every order of a declared family (rotations of ascending/descending, riffles, outside-in, one irregular order), then get_current_events(t) for every t, a late insertion, and a complete drain",
    "fourth shape: as 'ident' with a recompute event whose precedence attribute was set to -1 by its owner (ranks before unplugs; must survive the JSON round trip)",
    "second shape ('fill'): every add sequence of length 6 (thorough 7) over timestamps {0,1} x kinds, optional JSON dump, then a complete drain with get_event on original and restored queue",
]
CHUNK = 8

KINDS = ("U", "P", "R")
PREC = {"U": 0, "P": 10, "R": 20, "X": -1, "Y": 5}  # the documented order: unplug < plug-in < recompute; X = a recompute request whose owner set its precedence to -1
TYPE2KIND = {"Unplug": "U", "Plugin": "P", "Recompute": "R"}

_uid = [0]


def bounds(tier, seed):
    if tier == "thorough":
        return {"depth": 7, "timestamps": [0, 1, 2], "split_depth": 3, "t_query": [0, 1, 2, 3]}
    return {"depth": 5, "timestamps": [0, 1, 2], "split_depth": 2, "t_query": [0, 1, 2, 3]}


def alphabet(b):
    ops = []
    for ts in b["timestamps"]:
        for k in KINDS:
            ops.append(["add", ts, k])
    ops.append(["adds", [[1, "P"], [1, "U"]]])
    ops.append(["adds", [[0, "R"], [0, "U"]]])
    ops.append(["adds", [[2, "P"], [0, "P"]]])
    ops.append(["get"])
    for t in b["t_query"]:
        ops.append(["cur", t])
    ops.append(["json"])
    return ops


def mk_event(ts, kind, who=None):
    _uid[0] += 1
    if kind == "R":
        return RecomputeEvent(ts)
    if kind == "X":
        e = RecomputeEvent(ts)
        e.precedence = -1  # precedence is a public attribute of an event; the queue orders by it
        return e
    if kind == "Y":
        # a plug-in whose owner gave it precedence 5 (before ordinary plug-ins); its session id sorts AFTER theirs
        ev = EV(ts, ts + 3, 5.0, "PS-9", "zz-%d" % _uid[0], Battery(10, 0, 7))
        e = PluginEvent(ts, ev)
        e.precedence = 5
        return e
    if who is not None:
        # events of a small pool of sessions: the same session may have its plug-in and its unplug pending at one
        # timestamp, and session order is the reverse of station order (ordering must not look at either)
        # the EV's own arrival / departure (7, 9) are NOT the event's timestamp: the queue orders by the latter alone
        ev = EV(7, 9, 5.0, "PS-%d" % (1 - who), "sess-%d" % who, Battery(10, 0, 7))
        return PluginEvent(ts, ev) if kind == "P" else UnplugEvent(ts, ev)
    ev = EV(ts + (_uid[0] % 2), ts + 3, 5.0, "PS-%d" % (_uid[0] % 3), "sess-%d" % _uid[0], Battery(10, 0, 7))
    return PluginEvent(ts, ev) if kind == "P" else UnplugEvent(ts, ev)


def key(e):
    k = TYPE2KIND.get(e.event_type, "?")
    if k == "R" and e.precedence == -1:
        k = "X"
    if k == "P" and e.precedence == 5:
        k = "Y"
    if hasattr(e, "ev"):
        return (e.timestamp, k, e.ev.session_id)
    return (e.timestamp, k, None)


def rank(k):
    return (k[0], PREC.get(k[1], 99))


def clone(q):
    c = EventQueue()
    c._queue = list(q._queue)
    c._timestep = q._timestep
    return c


class State:
    __slots__ = ("q", "twin", "model")

    def __init__(self, q, twin, model):
        self.q, self.twin, self.model = q, twin, model

    def copy(self):
        return State(clone(self.q), clone(self.twin) if self.twin is not None else None, list(self.model))

    def canon(self):
        return (tuple((ts, e.precedence) for ts, e in self.q._queue), self.twin is not None)


def _remove(model, k):
    """remove key k from the model; Recompute events are interchangeable per timestamp"""
    if k in model:
        model.remove(k)
        return True
    return False


def step(st: State, op, viol):
    """Apply op to (a copy of) st on the real queue(s); append violations as (sig, what, obs, exp)."""
    s = st.copy()
    qs = [s.q] + ([s.twin] if s.twin is not None else [])
    name = op[0]
    try:
        if name == "add":
            e = mk_event(op[1], op[2], op[3] if len(op) > 3 else None)
            if e.timestamp != op[1]:
                viol.append(("event:timestamp-not-as-given", "an event created with timestamp %r carries timestamp %r" % (op[1], e.timestamp), e.timestamp, op[1]))
                return None
            for q in qs:
                q.add_event(e)
            s.model.append(key(e))
        elif name == "adds":
            es = [mk_event(ts, k) for ts, k in op[1]]
            for q in qs:
                q.add_events(es)
            s.model.extend(key(e) for e in es)
        elif name == "get":
            if not s.model:
                return None  # not enabled
            outs = [q.get_event() for q in qs]
            k = key(outs[0])
            best = min(rank(m) for m in s.model)
            if rank(k) != best:
                viol.append(("get_event:not-minimal", "get_event returned %s while a pending event ranks %s" % (k, best), k, best))
            if not _remove(s.model, k):
                viol.append(("get_event:not-pending", "get_event returned an event that is not pending", k, sorted(s.model)))
            if len(outs) == 2 and key(outs[1]) != k:
                viol.append(("json:twin-diverged", "restored queue returned %s, original %s" % (key(outs[1]), k), key(outs[1]), k))
        elif name == "cur":
            t = op[1]
            outs = [q.get_current_events(t) for q in qs]
            ks = [key(e) for e in outs[0]]
            exp = sorted((m for m in s.model if m[0] <= t), key=lambda m: (rank(m), str(m[2])))
            if sorted(ks, key=lambda m: (rank(m), str(m[2]))) != exp:
                viol.append(("get_current:wrong-set", "get_current_events(%d) returned %s, pending<=t is %s" % (t, ks, exp), ks, exp))
            if any(rank(ks[i]) > rank(ks[i + 1]) for i in range(len(ks) - 1)):
                viol.append(("get_current:order", "get_current_events(%d) not in (timestamp, precedence) order: %s" % (t, ks), ks, None))
            for k in ks:
                _remove(s.model, k)
            if len(outs) == 2 and [key(e) for e in outs[1]] != ks:
                viol.append(("json:twin-diverged", "restored queue returned a different event list", [key(e) for e in outs[1]], ks))
        elif name == "json":
            with warnings.catch_warnings():
                warnings.simplefilter("ignore")
                restored = EventQueue.from_json(s.q.to_json())
            if not isinstance(restored, EventQueue):
                viol.append(("json:type", "from_json did not return an EventQueue", type(restored).__name__, "EventQueue"))
            # the original keeps living as the twin; q is now the restored object
            s.twin = s.q
            s.q = restored
            if sorted(key(e) for _, e in restored._queue) != sorted(s.model):
                viol.append(("json:lost-or-changed-events", "restored queue holds different events", sorted(key(e) for _, e in restored._queue), sorted(s.model)))
        else:
            raise ValueError(op)
    except Exception as exc:  # the queue operations have no documented failure on this alphabet
        guard(exc)
        viol.append(("exception:%s:%s" % (name, type(exc).__name__), "operation %s raised %r" % (op, exc), repr(exc), None))
        return None
    observers(s, viol)
    return s


def observers(s: State, viol):
    for q in [s.q] + ([s.twin] if s.twin is not None else []):
        n = len(s.model)
        if len(q) != n:
            viol.append(("observer:len", "len()=%d but %d events are pending" % (len(q), n), len(q), n))
        if q.empty() != (n == 0):
            viol.append(("observer:empty", "empty()=%s with %d pending" % (q.empty(), n), q.empty(), n == 0))
        exp = max((m[0] for m in s.model), default=None)
        got = q.get_last_timestamp()
        if got != exp:
            viol.append(("observer:last_timestamp", "get_last_timestamp()=%s, latest pending timestamp is %s" % (got, exp), got, exp))
        if q.queue is not q._queue and list(q.queue) != list(q._queue):
            viol.append(("observer:queue", "queue property differs from the heap", None, None))


def exec_ops(ops):
    st = State(EventQueue(), None, [])
    viol = []
    observers(st, viol)
    for op in ops:
        nxt = step(st, op, viol)
        if nxt is None:
            break
        st = nxt
    return st, viol


def nontrivial(s: State):
    ts = [m[0] for m in s.model]
    return len(ts) >= 2 and len(set(ts)) < len(ts)


def bfs(root_hist, depth, ops, acc: Acc):
    root, v0 = exec_ops(root_hist)
    for sig, what, obs, exp in v0:
        acc.violation(sig, what, {"ops": root_hist}, obs, exp)
    seen = {root.canon()}
    acc.state(root.canon())
    frontier = [(root, root_hist)]
    for _ in range(depth):
        nxt = []
        for st, hist in frontier:
            for op in ops:
                viol = []
                s2 = step(st, op, viol)
                if s2 is None and not viol:
                    continue
                acc.transitions += 1
                h2 = hist + [op]
                for sig, what, obs, exp in viol:
                    acc.violation(sig, what, {"ops": h2}, obs, exp)
                if s2 is None:
                    continue
                acc.outcome((len(s2.model), op[0]))
                c = s2.canon()
                if c not in seen:
                    seen.add(c)
                    acc.state(c)
                    if nontrivial(s2):
                        acc.nt(c)
                    nxt.append((s2, h2))
        frontier = nxt
    return frontier


FILL_KINDS = [(ts, k) for ts in (0, 1) for k in KINDS]


def run_fill(item):
    """second exploration shape: every fill sequence of length n over (timestamp 0/1 x kind), optionally followed
    by a JSON dump (the ORIGINAL keeps being used, the restored twin is drained next to it), then drained
    completely with get_event - deep queues with many ties, which the BFS depth cannot reach"""
    import itertools

    acc = Acc()
    n = item["n"]
    seen = set()
    for first in item["firsts"]:
        for rest in itertools.product(range(len(FILL_KINDS)), repeat=n - 1):
            seq = [first] + list(rest)
            ops = [["add", FILL_KINDS[i][0], FILL_KINDS[i][1]] for i in seq]
            for tail in (["json"], []):
                full = ops + [[t] for t in tail] + [["get"]] * n
                st, viol = exec_ops(full)
                acc.transitions += len(full)
                c = (tuple(seq), bool(tail))
                for sig, what, obs, exp in viol:
                    acc.violation(sig, what, {"ops": full}, obs, exp)
                if st is not None:
                    acc.outcome(("fill", len(st.model)))
            heap = tuple(FILL_KINDS[i] for i in seq)
            if heap not in seen:
                seen.add(heap)
                acc.state(("fill", heap))
                if len(set(ts for ts, _ in heap)) < len(heap) - 1:
                    acc.nt(("fill", heap))
    acc.evals += acc.transitions
    acc.sample({"fill_then_json_then_drain": n, "first": item["firsts"]}, cap=1)
    return acc


USERPREC = [(ts, k, None) for ts in (0, 1) for k in ("X", "U", "P", "R", "Y")]
IDENT = [(ts, k, who) for ts in (0, 1) for k in ("U", "P") for who in (0, 1)] + [(0, "R", None), (1, "R", None)]


def run_ident(item):
    """third exploration shape: events that carry identities (two sessions on two stations, session order the reverse
    of station order; one session's plug-in and unplug may be pending at the same timestamp): every add sequence of
    length n, optional JSON dump, then drained by get_event, or by get_current_events(0), (1)"""
    import itertools

    acc = Acc()
    n = item["n"]
    IDENT = USERPREC if item.get("pool") == "userprec" else globals()["IDENT"]
    for rest in itertools.product(range(len(IDENT)), repeat=n - 1):
        seq = [item["first"]] + list(rest)
        ops = [["add", IDENT[i][0], IDENT[i][1]] + ([IDENT[i][2]] if IDENT[i][2] is not None else []) for i in seq]
        for tail in (["json"], []):
            for drain in ([["get"]] * n, [["cur", 0], ["cur", 1]], [["get"], ["cur", 1]]):
                full = ops + [[t] for t in tail] + drain
                st, viol = exec_ops(full)
                acc.transitions += len(full)
                for sig, what, obs, exp in viol:
                    acc.violation(sig, what, {"ops": full}, obs, exp)
                if st is not None:
                    acc.outcome(("ident", len(st.model)))
        heap = tuple(IDENT[i] for i in seq)
        acc.state(("ident", heap))
        if len({(ts, who) for ts, k, who in heap if who is not None}) < sum(1 for ts, k, who in heap if who is not None) or (item.get("pool") and any(k == "X" for _, k, _ in heap) and len({ts for ts, _, _ in heap}) < len(heap)):
            acc.nt(("ident", heap))
    acc.evals += acc.transitions
    acc.sample({"identity_fill_then_drain": n, "first": IDENT[item["first"]]}, cap=1)
    return acc


DEEP_N = 12


def deep_orders(n):
    """a declared family of insertion orders of n distinct timestamps 1..n (far beyond the BFS depth): ascending,
    descending, every rotation of both, riffles (odd positions then even ones, and the reverse), outside-in and inside-out"""
    asc = list(range(1, n + 1))
    fam = []
    for base in (asc, asc[::-1]):
        for r in range(n):
            fam.append(base[r:] + base[:r])
    fam.append(asc[0::2] + asc[1::2])
    fam.append(asc[1::2] + asc[0::2])
    fam.append((asc[0::2] + asc[1::2])[::-1])
    oi = []
    lo, hi = 0, n - 1
    while lo <= hi:
        oi.append(asc[lo])
        if hi != lo:
            oi.append(asc[hi])
        lo, hi = lo + 1, hi - 1
    fam.append(oi)
    fam.append(oi[::-1])
    fam.append([39, 11, 7, 18, 29, 12, 25, 28, 4, 5, 16, 33][:n])
    out = []
    for f in fam:
        if f not in out:
            out.append(f)
    return out


def run_deep(item):
    """fifth exploration shape: queues of a dozen pending events. Every order of the declared family is inserted, then
    for EVERY threshold t: get_current_events(t), one more insertion below and one above what is left, and a complete
    drain alternating get_event / get_current_events - each step against the sorted-list model"""
    acc = Acc()
    n = item["n"]
    orders = deep_orders(n)
    order = orders[item["order"]]
    kinds = "UPR"
    for t in sorted(set(order)) + [0, max(order) + 1]:
        for late in (None, t + 1, max(t - 1, 0)):
            ops = [["add", ts, kinds[i % 3]] for i, ts in enumerate(order)]
            ops.append(["cur", t])
            if late is not None:
                ops.append(["add", late, "P"])
            rest = [ts for ts in order if ts > t]
            ops += [["get"]] * min(3, len(rest) + (1 if late is not None else 0))
            ops.append(["cur", t + 3])
            ops += [["get"]] * n
            st, viol = exec_ops(ops)
            acc.transitions += len(ops)
            for sig, what, obs, exp in viol:
                acc.violation(sig, what, {"ops": ops}, obs, exp)
            acc.outcome(("deep", 0 if st is None else len(st.model)))
    acc.state(("deep", tuple(order)))
    acc.nt(("deep", tuple(order)))
    acc.evals += acc.transitions
    acc.sample({"deep_fill": order, "then": "get_current_events(t) for every t, late insertions, complete drain"}, cap=1)
    return acc


def space(tier, seed):
    """Parent-side BFS to split_depth; the de-duplicated frontier histories are the work items."""
    b = bounds(tier, seed)
    ops = alphabet(b)
    acc = Acc()
    frontier = bfs([], b["split_depth"], ops, acc)
    items = [{"root": hist, "depth": b["depth"] - b["split_depth"], "tier": tier} for _, hist in frontier]
    # the prefix part itself (depth <= split_depth) is checked by item 0
    items.insert(0, {"root": [], "depth": b["split_depth"], "tier": tier})
    n = 6 if tier == "quick" else 7
    for f in range(len(FILL_KINDS)):
        items.append({"fill": True, "n": n, "firsts": [f], "tier": tier})
    for f in range(len(IDENT)):
        items.append({"ident": True, "n": 4 if tier == "quick" else 5, "first": f, "tier": tier})
    # fifth shape: a dozen pending events (thorough: 16), inserted in every order of a declared family
    nd = DEEP_N if tier == "quick" else 16
    for oi in range(len(deep_orders(nd))):
        items.append({"deep": True, "n": nd, "order": oi, "tier": tier})
    # fourth shape: a recompute request with a user-set precedence among ordinary events (same drains, JSON twin)
    for f in range(len(USERPREC)):
        items.append({"ident": True, "pool": "userprec", "n": 4 if tier == "quick" else 5, "first": f, "tier": tier})
    return items


def run(item):
    if item.get("fill"):
        return run_fill(item)
    if item.get("ident"):
        return run_ident(item)
    if item.get("deep"):
        return run_deep(item)
    acc = Acc()
    b = bounds(item["tier"], 0)
    ops = alphabet(b)
    bfs(item["root"], item["depth"], ops, acc)
    acc.evals += acc.transitions  # every transition is one execution of the real queue code
    acc.sample({"root_history": item["root"], "then": "every operation sequence of length <= %d" % item["depth"]})
    return acc


def replay(scn):
    _, viol = exec_ops(scn["ops"])
    return [{"signature": s, "what": w, "observed": o, "expected": e} for s, w, o, e in viol]
