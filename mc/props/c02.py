"""C02 - energy ledger: recorded rates, EV energy counter and battery charge agree."""
from __future__ import annotations

import json
import warnings

import numpy as np

from acnportal import acnsim

from mc.core import Acc, guard
from mc import simspace as S

ID = "C02"
LEVEL = "model_checking"
TECHNIQUE = "exhaustive enumeration of bounded simulations (heterogeneous voltages, periods, battery models, owned noise draws, schedules addressing vacant stations); ledger invariant checked after every simulated period and at the end"
RULE = (
    "all 1..k-subsets of a session alphabet (station x arrival x stay x battery kind incl. noisy two-stage) without overlap, x schedulers x period lengths x noise patterns; "
    "after each period: d(energy counter)=rate*V*dt=d(battery charge), rate=0 on vacant stations; at the end: matrix sums, peak, analysis totals; "
    "non-trivial = scenario in which some session received non-zero energy in >=2 periods"
)
ASSUMPTIONS = [
    "end-of-run expectations are computed from a copy of the recorded matrix taken when the run ends; the analysis functions are read twice and must leave the recorded matrix unchanged (also on a one-station site)",
    "relative tolerance 1e-9 on float sums (<=12 periods)",
    "noise draws come from the owned numpy.random.normal seam with a fixed pattern per scenario (multiples of sigma)",
    "small scope: <=3 stations, <=3 sessions",
    "block 'stoch': StochasticNetwork (1-2 stations, early_departure off/on, <=3 sessions of the C19 alphabet), every random.choice answer sequence; a session's connected periods are those in which it sat on a station while that period's charging took place",
]
CHUNK = 40
KINDS = ("ideal-large", "ideal-small", "l2c-large", "l2s-small", "l2c-noise", "l2s-noise")


def sess(st, a, stay, kind):
    # the driver's ESTIMATED departure is later than the real one (it only informs schedulers; sessions end at `d`)
    s = {"st": st, "a": a, "d": a + stay, "kind": kind, "ed": a + stay + 1 + (a % 2)}
    if kind == "ideal-large":
        s.update(batt="ideal", e=50.0, cap=100.0, init=10.0, pmax=7.0)
    elif kind == "ideal-small":  # battery is the binding limit (fills up)
        s.update(batt="ideal", e=0.9, cap=1.0, init=0.7, pmax=3.3)
    elif kind == "l2c-large":
        s.update(batt="l2c", e=2.3, cap=10.0, init=7.6, pmax=7.0)
    elif kind == "l2s-small":
        s.update(batt="l2s", e=0.25, cap=10.0, init=7.9, pmax=7.0)
    elif kind == "l2c-noise":
        s.update(batt="l2c", e=4.0, cap=20.0, init=14.0, pmax=7.0, noise=0.3)
    elif kind == "l2s-noise":
        s.update(batt="l2s", e=4.0, cap=20.0, init=15.5, pmax=7.0, noise=0.3)
    return s


SCHEDS = {
    "max1": ({"kind": "script", "prog": {"rule": "max", "len": 1}}, 1),
    "max3": ({"kind": "script", "prog": {"rule": "max", "len": 3}}, 2),
    "alt": ({"kind": "script", "prog": {"rule": "alt", "len": 2}}, 1),
    "unc": ({"kind": "unc"}, 1),
    "fcfs": ({"kind": "greedy", "sort": "fcfs"}, 1),
    "sparse": ({"kind": "script", "prog": {"rule": "max", "len": 1}}, None),
    "look": ({"kind": "script", "prog": {"rule": "max", "len": 1, "lookahead": True}}, 1),
    "near": ({"kind": "script", "prog": {"rule": "nearmax", "len": 1}}, 1),
}
NOISE = ([0.0], [3.0], [-3.0], [1.0, -2.0, 0.1])


def bounds(tier, seed):
    return {"kmax": 2 if tier == "quick" else 3, "periods": [1, 5, 7.5], "nets": ["N2", "N1"], "noise_patterns": [list(n) for n in NOISE]}


def space(tier, seed):
    thorough = tier == "thorough"
    items = []
    for netname in ("N2", "N1"):
        stations = list(S.NETS[netname]["stations"])
        pool = [sess(st, a, sy, kd) for st in stations for a in (0, 1) for sy in (1, 3) for kd in KINDS]
        for ss in S.session_subsets(pool, 1, 3 if thorough else 2):
            noisy = any("noise" in s for s in ss)
            for sk in SCHEDS:
                # 8 minutes do not divide an hour (7.5 periods per hour): for the two-stage batteries under two schedulers
                for period in (1, 5, 7.5) + ((8,) if sk in ("max1", "unc") and any(s.get("batt") in ("l2c", "l2s") for s in ss) else ()):
                    if not thorough and len(ss) == 2 and period == 5 and sk in ("alt", "sparse"):
                        continue
                    if sk in ("look", "near") and period != 5:
                        continue
                    for npat in (NOISE if noisy else NOISE[:1]):
                        spec, k = SCHEDS[sk]
                        items.append({"net": netname, "sessions": ss, "sched": spec, "sk": sk, "k": k, "period": period, "noise": list(npat)})
                        if sk == "max1" and period == 5 and npat == NOISE[0]:
                            # the same sessions simulated a second time with the SAME (reset) EV objects under a pulsed scheduler
                            items.append({"net": netname, "sessions": ss, "sched": spec, "sk": sk, "k": k, "period": period, "noise": list(npat), "rerun": True})
    return items + stoch_items(tier)


def close(a, b, scale=1.0):
    return abs(a - b) <= 1e-9 * max(abs(a), abs(b), scale) + 1e-12


def check(scn, tr, out):
    sim = tr.sim
    if tr.error is not None:
        out("exception:%s" % type(tr.error).__name__, "run() raised %r" % tr.error, repr(tr.error), None)
        return
    ss = {s["sid"]: s for s in scn["sessions"]}
    volt = sim.network.voltages
    dt = scn["period"] / 60.0
    ids = sim.network.station_ids
    prev_e = {k: 0.0 for k in ss}
    prev_c = {k: s["init"] for k, s in ss.items()}
    for p in tr.periods:
        t = p["t"]
        for st, occ in p["occ"].items():
            if occ is None and p["rate"][st] != 0:
                out("period:rate-on-vacant", "period %d: vacant station %s reports rate %s" % (t, st, p["rate"][st]), p["rate"][st], 0)
                return
        for sid, s in ss.items():
            connected = p["occ"].get(s["st"]) == sid
            de = p["energy"][sid] - prev_e[sid]
            dc = p["charge"][sid] - prev_c[sid]
            exp = p["rate"][s["st"]] * volt[s["st"]] / 1000.0 * dt if connected else 0.0
            if not close(de, exp, 1e-3):
                out("period:energy-vs-rate", "period %d session %s: energy counter moved %.12g, rate*V*dt=%.12g" % (t, sid, de, exp), de, exp)
                return
            if not close(dc, de, 1e-3):
                out("period:battery-vs-energy", "period %d session %s: battery gained %.12g, energy counter %.12g" % (t, sid, dc, de), dc, de)
                return
            prev_e[sid], prev_c[sid] = p["energy"][sid], p["charge"][sid]
    # ---- end of run: the stored matrix ------------------------------------------
    # the recorded matrix as it stands when the run has ended; every expectation below is computed from this copy, and the
    # analysis functions are asked twice: reading a finished simulation must not alter what it recorded
    cr = np.array(sim.charging_rates, dtype=float, copy=True)
    T = sim.iteration
    occ = {(s["st"], t): s["sid"] for s in ss.values() for t in range(s["a"], s["d"])}
    for i, st in enumerate(ids):
        for t in range(cr.shape[1]):
            if (st, t) not in occ and cr[i, t] != 0:
                out("matrix:rate-on-vacant", "charging_rates[%s,%d]=%s but no EV was connected" % (st, t, cr[i, t]), float(cr[i, t]), 0)
                return
    for p in tr.periods:
        for i, st in enumerate(ids):
            if cr[i, p["t"]] != p["rate"][st]:
                out("matrix:differs-from-live-rate", "charging_rates[%s,%d]=%s, EV reported %s in that period" % (st, p["t"], cr[i, p["t"]], p["rate"][st]), float(cr[i, p["t"]]), p["rate"][st])
                return
    for sid, s in ss.items():
        i = ids.index(s["st"])
        exp = sum(cr[i, t] * volt[s["st"]] / 1000.0 * dt for t in range(s["a"], min(s["d"], cr.shape[1])))
        ev = sim.ev_history[sid]
        if not close(ev.energy_delivered, exp, 1e-3):
            out("final:energy-vs-matrix", "session %s: energy_delivered %.12g, sum of recorded rate*V*dt %.12g" % (sid, ev.energy_delivered, exp), ev.energy_delivered, exp)
            return
        # battery state through the public JSON dump of the EV
        with warnings.catch_warnings():
            warnings.simplefilter("ignore")
            doc = json.loads(ev.to_json())
        batt = [v for v in doc["context_dict"].values() if "Battery" in v["class"]][0]["attributes"]
        gained = batt["_current_charge"] - s["init"]
        if not close(gained, ev.energy_delivered, 1e-3):
            out("final:battery-vs-energy", "session %s: battery gained %.12g, energy_delivered %.12g" % (sid, gained, ev.energy_delivered), gained, ev.energy_delivered)
            return
    agg = [sum(cr[i, t] for i in range(len(ids))) for t in range(cr.shape[1])]
    exp_peak = max([0.0] + agg)
    if not close(sim.peak, exp_peak, 1e-3):
        out("final:peak", "peak=%s, max aggregate recorded current=%s" % (sim.peak, exp_peak), float(sim.peak), exp_peak)
    ac = acnsim.aggregate_current(sim)
    if len(ac) != len(agg) or any(not close(x, y, 1e-3) for x, y in zip(ac, agg)):
        out("analysis:aggregate_current", "aggregate_current differs from column sums", list(map(float, ac)), agg)
    ap = acnsim.aggregate_power(sim)
    exp_ap = [sum(cr[i, t] * volt[st] / 1000.0 for i, st in enumerate(ids)) for t in range(cr.shape[1])]
    if any(not close(x, y, 1e-3) for x, y in zip(ap, exp_ap)):
        out("analysis:aggregate_power", "aggregate_power differs from sum(V*I)", list(map(float, ap)), exp_ap)
    tot = acnsim.total_energy_delivered(sim)
    integ = sum(exp_ap) * dt
    if not close(tot, integ, 1e-3):
        out("final:total-vs-integral", "total_energy_delivered=%.12g, integral of aggregate power=%.12g" % (tot, integ), tot, integ)
    ap2 = acnsim.aggregate_power(sim)
    if any(not close(x, y, 1e-3) for x, y in zip(ap2, exp_ap)) or not np.array_equal(np.asarray(sim.charging_rates, dtype=float), cr):
        out("analysis:second-reading-differs", "aggregate_power asked a second time differs, or the analysis functions altered the recorded rates", list(map(float, ap2)), exp_ap)
    if T != len(tr.periods):
        out("final:periods", "iteration %d vs %d simulated periods" % (T, len(tr.periods)), T, len(tr.periods))


# ---- block "stoch": the ledger on a StochasticNetwork (stations are assigned at run time, EVs may be
# swapped out at the end of a period) - every answer sequence of the owned random.choice is explored ----
def stoch_items(tier):
    from mc.props import c19

    kmax = 2 if tier == "quick" else 3
    import itertools

    items = []
    for k in range(1, kmax + 1):
        for combo in itertools.combinations_with_replacement(range(len(c19.TYPES)), k):
            for ns in (1, 2):
                for early in (False, True):
                    items.append({"block": "stoch", "types": list(combo), "ns": ns, "early": early})
    return items


def stoch_once(item, chooser):
    from mc.props import c19

    sim, net, evs = c19.build(item)
    log = []

    def hook(kind, arg):
        if kind == "before-period-end":  # charging of this period is done, nobody has been swapped yet
            log.append(
                {
                    "t": sim._iteration,
                    "occ": {s: (net._EVSEs[s].ev.session_id if net._EVSEs[s].ev is not None else None) for s in net.station_ids},
                    "energy": {e.session_id: float(e.energy_delivered) for e in evs},
                    "charge": {e.session_id: float(e._battery._current_charge) for e in evs},
                }
            )
            if sim._iteration > 12:
                raise S.Watchdog("still running")

    net._h = hook
    old = c19.SN.random
    c19.SN.random = c19.Shim(chooser)
    err = None
    try:
        with warnings.catch_warnings():
            warnings.simplefilter("ignore")
            sim.run()
    except Exception as exc:  # noqa
        guard(exc)
        err = exc
    finally:
        c19.SN.random = old
    return sim, net, evs, log, err


def check_stoch(item, sim, net, evs, log, err, out):
    if err is not None:
        out("stoch:exception:%s" % type(err).__name__, "run() raised %r" % (err,), repr(err), None)
        return
    cr = np.array(sim.charging_rates, dtype=float, copy=True)
    ids = net.station_ids
    dt = sim.period / 60.0
    V = 208.0
    prev = {e.session_id: 0.0 for e in evs}
    prevc = {e.session_id: float(e._battery._init_charge) for e in evs}
    total = 0.0
    for p in log:
        t = p["t"]
        where = {sid: s for s, sid in p["occ"].items() if sid is not None}
        for i, s in enumerate(ids):
            if p["occ"][s] is None and cr[i, t] != 0:
                out("stoch:rate-on-vacant", "period %d: station %s was vacant while charging but the recorded rate is %r" % (t, s, cr[i, t]), float(cr[i, t]), 0)
                return
        for sid in prev:
            de = p["energy"][sid] - prev[sid]
            dc = p["charge"][sid] - prevc[sid]
            exp = cr[ids.index(where[sid]), t] * V / 1000.0 * dt if sid in where else 0.0
            if not close(de, exp, 1e-3):
                out("stoch:energy-vs-recorded-rate", "period %d session %s (at %s): energy counter moved %.12g, recorded rate x V x dt = %.12g" % (t, sid, where.get(sid), de, exp), de, exp)
                return
            if not close(dc, de, 1e-3):
                out("stoch:battery-vs-energy", "period %d session %s: battery gained %.12g, counter %.12g" % (t, sid, dc, de), dc, de)
                return
            prev[sid], prevc[sid] = p["energy"][sid], p["charge"][sid]
    integ = float(sum(cr[i, t] * V / 1000.0 * dt for i in range(len(ids)) for t in range(cr.shape[1])))
    exp_ap = [float(sum(cr[i, t] for i in range(len(ids))) * V / 1000.0) for t in range(cr.shape[1])]
    for nth in ("first", "second"):
        # (a site with ONE station included) the aggregate power of the finished run, read twice
        ap = acnsim.aggregate_power(sim)
        if len(ap) != len(exp_ap) or any(not close(x, y, 1e-3) for x, y in zip(ap, exp_ap)) or not np.array_equal(np.asarray(sim.charging_rates, dtype=float), cr):
            out("stoch:aggregate-power:%s-reading" % nth, "aggregate_power (%s reading) differs from sum(V*I) of the recorded rates, or reading it altered the recorded rates" % nth, list(map(float, ap)), exp_ap)
            break
    tot = acnsim.total_energy_delivered(sim)
    if not close(tot, integ, 1e-3):
        out("stoch:total-vs-integral", "total_energy_delivered=%.12g, integral of recorded aggregate power=%.12g" % (tot, integ), tot, integ)
    agg = [float(sum(cr[i, t] for i in range(len(ids)))) for t in range(cr.shape[1])]
    if not close(sim.peak, max([0.0] + agg), 1e-3):
        out("stoch:peak", "peak=%s, max recorded aggregate current=%s" % (sim.peak, max([0.0] + agg)), float(sim.peak), max([0.0] + agg))


def run_stoch(item, only_choices=None):
    from mc.engines import explore_choices, Chooser

    acc = Acc()
    if only_choices is not None:
        ch = Chooser(only_choices)
        res = stoch_once(item, ch)
        viol = []
        check_stoch(item, *res, lambda sig, what, o=None, e=None: viol.append((sig, what, o, e)))
        return viol
    for choices, res in explore_choices(lambda ch: stoch_once(item, ch)):
        sim, net, evs, log, err = res
        viol = []
        check_stoch(item, sim, net, evs, log, err, lambda sig, what, o=None, e=None: viol.append((sig, what, o, e)))
        acc.evals += 1
        acc.transitions += len(log)
        swapped = net.early_unplug > 0 or net.swaps > 0
        acc.outcome(("stoch", net.early_unplug, net.swaps, round(float(sim.peak), 3)))
        for p in log:
            acc.state(("stoch", item["ns"], item["early"], p["t"], tuple(sorted(p["occ"].items()))))
        if swapped:
            acc.nt(("stoch", tuple(item["types"]), item["ns"], item["early"], tuple(choices)))
        for sig, what, o, e in viol:
            acc.violation(sig, what, dict(item, choices=list(choices)), o, e)
    acc.sample({"block": "stoch", "types": item["types"], "stations": item["ns"], "early_departure": item["early"]}, cap=1)
    return acc


def execute(scn):
    mid = []

    def on_call(rec, active_sessions, r):
        # the totals are also read WHILE the simulation is under way (at every scheduler invocation): the ledger is a
        # statement about every simulation, finished or not
        sim = rec.interface._simulator
        mid.append((sim.iteration, float(acnsim.total_energy_delivered(sim)), float(np.sum(acnsim.aggregate_power(sim))), float(sim.peak)))

    with S.owned_noise(S.cyclic(scn.get("noise") or [0.0])):
        tr = S.run_sim(scn, on_call=on_call)
        if scn.get("rerun") and tr.error is None:
            del mid[:]
            tr = S.run_sim(dict(scn, sched={"kind": "script", "prog": {"rule": "zeromax", "len": 1}}, k=1), reuse=tr.evs, on_call=on_call)
    viol = []
    check(scn, tr, lambda sig, what, o=None, e=None: viol.append((sig, what, o, e)))
    if tr.error is None and not viol:
        dt = scn["period"] / 60.0
        volt = tr.sim.network.voltages
        for t, tot, sum_ap, peak in mid:
            done = [p for p in tr.periods if p["t"] < t]
            e_sessions = sum(done[-1]["energy"].values()) if done else 0.0
            integ = sum(p["rate"][st] * volt[st] / 1000.0 for p in done for st in p["rate"]) * dt
            agg_peak = max([0.0] + [sum(p["rate"].values()) for p in done])
            if not close(tot, e_sessions, 1e-3) or not close(sum_ap * dt, integ, 1e-3) or not close(tot, integ, 1e-3):
                viol.append(("midrun:total-vs-integral", "read at period %d of a running simulation: total_energy_delivered=%.12g, sessions hold %.12g, integral of recorded aggregate power=%.12g (analysis: %.12g)" % (t, tot, e_sessions, integ, sum_ap * dt), tot, integ))
                break
            if not close(peak, agg_peak, 1e-3):
                viol.append(("midrun:peak", "read at period %d of a running simulation: peak=%s, max recorded aggregate current so far=%s" % (t, peak, agg_peak), peak, agg_peak))
                break
    return tr, viol


def run(scn):
    if scn.get("block") == "stoch":
        return run_stoch(scn)
    acc = Acc()
    tr, viol = execute(scn)
    acc.evals += 1
    acc.transitions += len(tr.periods)
    charged = 0
    for p in tr.periods:
        acc.state((scn["net"], tuple(sorted(p["occ"].items(), key=str)), tuple(round(v, 6) for v in p["energy"].values()), scn["period"]))
    for sid in tr.evs:
        n = sum(1 for a, b in zip([{"energy": {sid: 0}}] + tr.periods, tr.periods) if b["energy"][sid] != a["energy"][sid])
        charged = max(charged, n)
    acc.outcome((round(float(tr.sim.peak), 3), type(tr.error).__name__))
    if charged >= 2:
        acc.nt((scn["net"], scn["sk"], scn["period"], tuple(scn["noise"]), tuple((s["st"], s["a"], s["d"], s["kind"]) for s in scn["sessions"])))
    for sig, what, o, e in viol:
        acc.violation(sig, what, scn, o, e)
    acc.sample({k: scn[k] for k in ("net", "sessions", "sk", "period", "noise")}, cap=2)
    return acc


def replay(scn):
    if scn.get("block") == "stoch":
        item = {k: scn[k] for k in ("block", "types", "ns", "early")}
        viol = run_stoch(item, only_choices=scn.get("choices") or [])
        return [{"signature": s, "what": w, "observed": o, "expected": e} for s, w, o, e in viol]
    _, viol = execute(scn)
    return [{"signature": s, "what": w, "observed": o, "expected": e} for s, w, o, e in viol]
