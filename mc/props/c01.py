"""C01 - every session plugged/unplugged exactly once, event order, termination.

Exhaustive scenario product (networks x session k-subsets x periods x max_recompute x
recompute events x schedulers) run through the real Simulator.run(); a 10-line reference
event loop gives the expected occupancy of every station in every period, the expected
event history and the final iteration.
"""
from __future__ import annotations

import itertools

import numpy as np

from mc.core import Acc
from mc import simspace as S

ID = "C01"
LEVEL = "model_checking"
TECHNIQUE = "exhaustive enumeration of bounded event histories x configurations through the real Simulator.run(), reference event-loop model checked in every period"
RULE = (
    "all k-subsets of a session alphabet (station x arrival x stay x energy x battery) without overlap on a station, "
    "crossed with network templates, period lengths, max_recompute, recompute events and schedulers; every scenario is run to completion under a watchdog; "
    "states = canonical (occupancy, pending departures relative to t) per period; non-trivial = scenario with >=2 sessions sharing a station back-to-back or an event period"
)
ASSUMPTIONS = [
    "block D: plug-in events one period earlier / later than the EV's nominal arrival (the property ties plug-in to the event, unplug to the departure)",
    "block E: six sessions on six unconstrained stations, plug-in events queued in every order of their arrival times",
    "block F: the event queue handed over empty and filled afterwards; two non-overlapping sessions carrying the same session id; block B includes sessions that request 0 kWh",
    "small-scope: <=3 stations, <=4 sessions, arrivals<=3, stays<=4, periods 1/5/7.5 min",
    "reference model: occupant(station,t) = the session with arrival<=t<departure; scheduler alphabets are scripted max-pilot (1- and 3-period schedules), empty script, uncontrolled, FCFS greedy",
    "block G: a ChargingNetwork object whose first simulation has completed (all stations vacant) is handed to a second Simulator with fresh sessions",
    "infeasible scripted schedules legitimately only warn; warnings are not violations",
]
CHUNK = 40


def bounds(tier, seed):
    return {"tier": tier, "kmax_history_block": 3 if tier == "quick" else 4, "arrivals": [0, 1, 2] if tier == "quick" else [0, 1, 2, 3]}


def sess(st, a, stay, energy="large", batt="ideal"):
    s = {"st": st, "a": a, "d": a + stay, "batt": batt}
    if batt == "ideal":
        if energy == "large":
            s.update(e=50.0, cap=100.0, init=0.0)
        elif energy == "zero":  # a session that asks for nothing (it still occupies its space)
            s.update(e=0.0, cap=10.0, init=5.0)
        else:
            s.update(e=0.3, cap=1.0, init=0.2)
    else:  # two-stage: starts just below the transition SoC
        if energy == "large":
            s.update(e=2.3, cap=10.0, init=7.6)
        else:
            s.update(e=0.25, cap=10.0, init=7.9)
    return s


SCHEDS = {
    "max1": {"kind": "script", "prog": {"rule": "max", "len": 1}},
    "max3": {"kind": "script", "prog": {"rule": "max", "len": 3}},
    "empty": {"kind": "script", "prog": {"rule": "empty"}},
    "unc": {"kind": "unc"},
    "fcfs": {"kind": "greedy", "sort": "fcfs"},
}


def space(tier, seed):
    items = []
    thorough = tier == "thorough"
    # ---- block A: histories (many sessions, three stations) -------------------
    arrivals = [0, 1, 2, 3] if thorough else [0, 1, 2]
    stays = [1, 2, 4] if thorough else [1, 2, 3]
    for netname, stations in (("N2", ["PS-A", "PS-B", "PS-C"]), ("N1", ["PS-A", "PS-B"])):
        pool = [sess(st, a, sy) for st in stations for a in arrivals for sy in stays]
        kmax = 4 if thorough else 3
        for ss in S.session_subsets(pool, 1, kmax):
            # the (optional) estimated departure differs from the real one: unplugging is driven by `departure` alone
            for j, s in enumerate(ss):
                s["ed"] = s["d"] + (2, -1, 1)[j % 3] if s["d"] + (2, -1, 1)[j % 3] > s["a"] else s["d"] + 3
            for sk, k in (("max1", None), ("max1", 1), ("max3", 2), ("unc", 1), ("fcfs", 1)):
                items.append({"net": netname, "sessions": ss, "sched": SCHEDS[sk], "sk": sk, "k": k, "period": 1})
    # ---- block B: configurations (fewer sessions, every option) ---------------
    for netname, stations in (("N0", ["PS-A"]), ("N1", ["PS-A", "PS-B"]), ("N2", ["PS-A", "PS-C"]), ("N3", ["PS-A", "PS-B"])):
        pool = [
            sess(st, a, sy, en, bt)
            for st in stations
            for a in ((0, 1, 3) if thorough else (0, 1))
            for sy in ((1, 2, 4) if thorough else (1, 2))
            for en, bt in (("large", "ideal"), ("small", "ideal"), ("large", "l2c"), ("small", "l2s"), ("zero", "ideal"))
        ]
        scheds = ["max1", "max3", "empty"] + ([] if netname == "N3" else ["unc", "fcfs"])
        for ss in S.session_subsets(pool, 1, 2 if not thorough else 2):
            for j, s in enumerate(ss):
                s["ed"] = s["d"] + (3, 1)[j % 2]
            # keep the block finite but complete over its declared sub-alphabet: 2-subsets only
            # when they share a station (back-to-back reuse) or an event period
            if len(ss) == 2:
                a, b = ss
                touching = a["st"] == b["st"] or {a["a"], a["d"]} & {b["a"], b["d"]}
                if not touching:
                    continue
            for sk in scheds:
                for period in ((1, 5, 7.5) if thorough else (1, 7.5)):
                    for k in ((None, 1, 2, 3) if thorough else (None, 1, 3)):
                        for rc in (([], [1], [0, 6]) if thorough else ([], [0, 6])):
                            items.append({"net": netname, "sessions": ss, "sched": SCHEDS[sk], "sk": sk, "k": k, "period": period, "recompute": rc})
                            if rc and k != 3 and any(s["a"] in rc for s in ss):
                                # the same history with the recompute requests LISTED before the plug-ins
                                items.append({"net": netname, "sessions": ss, "sched": SCHEDS[sk], "sk": sk, "k": k, "period": period, "recompute": rc, "rc_first": True})
    # ---- block D: plug-in events whose timestamp differs from the EV's nominal arrival (early / late drivers):
    # the session is plugged in in the period of its plug-in EVENT and leaves in its departure period
    for netname, stations in (("N1", ["PS-A", "PS-B"]),):
        pool = []
        for st in stations:
            for a in (1, 2, 3):
                for sy in (2, 3):
                    for shift in (-1, 1):
                        s = sess(st, a, sy)
                        s["pt"] = a + shift
                        pool.append(s)
        for ss in S.session_subsets(pool, 1, 3 if thorough else 2):
            ivs = {}
            ok = True
            for s in ss:
                for lo, hi in ivs.get(s["st"], []):
                    if min(s["pt"], s["a"]) < hi and lo < s["d"]:
                        ok = False
                ivs.setdefault(s["st"], []).append((min(s["pt"], s["a"]), s["d"]))
            if not ok:
                continue
            for sk, k in (("max1", 1), ("max3", 2), ("unc", 1), ("max1", None)):
                items.append({"net": netname, "sessions": ss, "sched": SCHEDS[sk], "sk": sk, "k": k, "period": 1})
    # ---- block E: six sessions on six stations, arrival times a permutation of a multiset - the plug-in events are
    # handed to the queue in every order (the heap layout, and the interleaving with the unplugs queued at run time,
    # differ from order to order; the outcome must not)
    for arrs in ((1, 2, 3, 4, 5, 6), (1, 1, 2, 3, 3, 4)):
        for perm in sorted(set(itertools.permutations(arrs))):
            if not thorough and arrs[1] == 1 and perm[0] != 1:
                continue
            ss = [dict(sess("PS-%d" % (i + 1), a, 1 + (i % 2)), sid="ev%d" % i) for i, a in enumerate(perm)]
            items.append({"net": "N8", "sessions": ss, "sched": SCHEDS["unc"], "sk": "unc", "k": 1, "period": 1})
    # ---- block F: the caller's queue is still empty when the simulator is built and is filled afterwards; and two
    # sessions of one vehicle tag (the SAME session id on two non-overlapping visits)
    for netname, stations in (("N1", ["PS-A", "PS-B"]),):
        pool = [sess(st, a, sy) for st in stations for a in (0, 1, 3) for sy in (1, 2)]
        for ss in S.session_subsets(pool, 1, 2):
            for sk, k in (("max1", 1), ("unc", 1), ("max3", 2)):
                items.append({"net": netname, "sessions": ss, "sched": SCHEDS[sk], "sk": sk, "k": k, "period": 1, "queue_after": True})
            if len(ss) == 2 and ss[0]["d"] <= ss[1]["a"]:
                twin = [dict(ss[0]), dict(ss[1], sid=ss[0]["sid"])]
                for sk, k in (("max1", 1), ("unc", 1), ("fcfs", 1)):
                    items.append({"net": netname, "sessions": twin, "sched": SCHEDS[sk], "sk": sk, "k": k, "period": 1})
    # ---- block G: the network OBJECT of a completed simulation (every station vacated) serves a second simulator
    for netname, stations in (("N1", ["PS-A", "PS-B"]), ("N2", ["PS-A", "PS-C"])):
        pool = [sess(st, a, sy) for st in stations for a in (0, 1, 2) for sy in (1, 3)]
        for ss in S.session_subsets(pool, 1, 2):
            for sk, k in (("max1", 1), ("unc", None), ("fcfs", 1)):
                items.append({"net": netname, "sessions": ss, "sched": SCHEDS[sk], "sk": sk, "k": k, "period": 1, "second_sim": True})
    return items


def plug(s):
    """period in which the session's plug-in event is due"""
    return s.get("pt", s["a"])


def expected(scn):
    ss = scn["sessions"]
    L = S.horizon_of(scn)
    stations = list(S.NETS[scn["net"]]["stations"])
    occ = []
    for t in range(L + 1):
        row = {st: None for st in stations}
        for s in ss:
            if plug(s) <= t < s["d"]:
                row[s["st"]] = s["sid"]
        occ.append(row)
    return L, occ


PREC = {"Unplug": 0, "Plugin": 1, "Recompute": 2}


def check(scn, tr, out):
    """out(sig, what, observed, expected)"""
    L, occ = expected(scn)
    sim = tr.sim
    if tr.error is not None:
        e = tr.error
        where = "last-period" if sim.iteration == L else "earlier-period"
        if isinstance(e, S.Watchdog):
            out("termination:watchdog", "run() did not terminate by the horizon: %s" % e, sim.iteration, L + 1)
        else:
            out(
                "exception:%s:%s:%s" % (type(e).__name__, "multi-period-schedule" if scn["sk"] == "max3" else scn["sk"], where),
                "run() raised %r at iteration %d (last event period %d)" % (e, sim.iteration, L),
                repr(e),
                None,
            )
        return
    # --- event history -------------------------------------------------------
    hist = S.events_key(sim)
    exp_multiset = sorted(
        [("Plugin", plug(s), s["sid"]) for s in scn["sessions"]]
        + [("Unplug", s["d"], s["sid"]) for s in scn["sessions"]]
        + [("Recompute", t, None) for t in scn.get("recompute", [])],
        key=lambda x: (x[1], PREC[x[0]], str(x[2])),
    )
    if sorted(hist, key=lambda x: (x[1], PREC[x[0]], str(x[2]))) != exp_multiset:
        out("history:multiset", "event history is not exactly one plug-in and one unplug per session (+ recomputes)", hist, exp_multiset)
    ranks = [(h[1], PREC[h[0]]) for h in hist]
    if any(ranks[i] > ranks[i + 1] for i in range(len(ranks) - 1)):
        out("history:order", "events not handled in (time, departure<arrival<recompute) order", hist, None)
    if set(sim.ev_history) != {s["sid"] for s in scn["sessions"]}:
        out("history:ev_history", "ev_history does not hold every session", sorted(sim.ev_history), None)
    # --- per period occupancy ------------------------------------------------
    if len(tr.periods) != L + 1 or [p["t"] for p in tr.periods] != list(range(L + 1)):
        out("periods:count", "simulated periods %s, expected 0..%d" % ([p["t"] for p in tr.periods], L), len(tr.periods), L + 1)
    for p in tr.periods:
        t = p["t"]
        if t <= L and p["occ"] != occ[t]:
            out("occupancy:period", "period %d: stations hold %s, the sessions with arrival<=t<departure are %s" % (t, p["occ"], occ[t]), p["occ"], occ[t])
            break
    for c in tr.rec.calls:
        t = c["t"]
        if t <= L and c.get("occ") != occ[t]:
            out("occupancy:at-scheduler-call", "scheduler called in period %d saw occupancy %s, expected %s" % (t, c.get("occ"), occ[t]), c.get("occ"), occ[t])
            break
    # --- end state -----------------------------------------------------------
    if sim.iteration != L + 1:
        out("final:iteration", "simulation ended at iteration %d, last event at %d" % (sim.iteration, L), sim.iteration, L + 1)
    if not sim.event_queue.empty():
        out("final:queue", "event queue not empty after run()", len(sim.event_queue), 0)
    left = {st: sim.network.get_ev(st).session_id for st in sim.network.station_ids if sim.network.get_ev(st) is not None}
    if left:
        out("final:vacant", "stations still occupied after run(): %s" % left, left, {})
    # --- can receive current exactly while connected ------------------------
    if scn["sk"] in ("max1", "max3") and (scn["k"] == 1 or scn["sk"] == "max1" and scn["k"] is not None and scn["k"] <= 1):
        # scheduler runs every period and always offers the maximum pilot: an ideal, never-full
        # battery then draws current in exactly its connected periods
        cr = sim.charging_rates
        ids = sim.network.station_ids
        for s in scn["sessions"]:
            if s.get("batt", "ideal") != "ideal" or s["e"] < 10:
                continue
            row = cr[ids.index(s["st"])]
            for t in range(min(cr.shape[1], L + 1)):
                mine = plug(s) <= t < s["d"]
                other = any(s2 is not s and s2["st"] == s["st"] and plug(s2) <= t < s2["d"] for s2 in scn["sessions"])
                if mine and not row[t] > 0:
                    out("rates:connected-but-no-current", "session %s connected in period %d but recorded rate is %s" % (s["sid"], t, row[t]), float(row[t]), ">0")
                    return
                if not mine and not other and row[t] != 0:
                    out("rates:current-while-absent", "station %s vacant in period %d but recorded rate %s" % (s["st"], t, row[t]), float(row[t]), 0)
                    return


def on_call(rec, active_sessions, r):
    net = rec.interface._simulator.network
    r["occ"] = {sid: (e.ev.session_id if e.ev is not None else None) for sid, e in net._EVSEs.items()}


def execute(scn):
    if scn.get("second_sim"):
        first = S.run_sim(scn, on_call=on_call)
        if first.error is None:
            # same sessions (fresh EV objects, fresh queue, fresh scheduler) on the network object the first run used
            tr = S.run_sim(scn, on_call=on_call, net=first.sim.network)
            viol = []
            check(scn, tr, lambda sig, what, o=None, e=None: viol.append(("second-simulator-on-one-network:" + sig, what, o, e)))
            return tr, viol
    tr = S.run_sim(scn, on_call=on_call)
    viol = []
    check(scn, tr, lambda sig, what, o=None, e=None: viol.append((sig, what, o, e)))
    return tr, viol


def run(scn):
    acc = Acc()
    tr, viol = execute(scn)
    acc.evals += 1
    acc.transitions += len(tr.periods)
    ss = scn["sessions"]
    for p in tr.periods:
        t = p["t"]
        pend = tuple(sorted((s["st"], plug(s) - t) for s in ss if plug(s) > t)) + tuple(sorted((s["st"], s["d"] - t) for s in ss if plug(s) <= t < s["d"]))
        acc.state((scn["net"], tuple(sorted((k, v is not None) for k, v in p["occ"].items())), pend, scn["k"], scn["sk"]))
    acc.outcome((tr.sim.iteration, len(tr.sim.event_history), type(tr.error).__name__))
    times = [s["a"] for s in ss] + [s["d"] for s in ss]
    if len(ss) >= 2 and len(set(times)) < len(times):
        acc.nt((scn["net"], tuple((s["st"], s["a"], s["d"]) for s in ss), scn["sk"], scn["k"], scn.get("period"), tuple(scn.get("recompute", []))))
    for sig, what, o, e in viol:
        acc.violation(sig, what, scn, o, e)
    acc.sample({k: scn[k] for k in ("net", "sessions", "sk", "k", "period")}, cap=2)
    return acc


def replay(scn):
    _, viol = execute(scn)
    return [{"signature": s, "what": w, "observed": o, "expected": e} for s, w, o, e in viol]
