"""C18 - analysis functions equal their first-principles definitions.

Exhaustive scenario product: completed runs of the real Simulator on three-phase networks
with heterogeneous voltages and mixed-sign constraints (all registration / constraint orders
of a menu) x session subsets x schedulers; on every completed run every analysis function
is evaluated for EVERY ordered subset of the constraint ids, every threshold of a menu and
every ordering of the phase triple, and compared with a recomputation in plain Python
loops from charging_rates, the network TEMPLATE (voltages, angles, coefficients) and the
session objects.
"""
from __future__ import annotations

import cmath
import itertools
import math
import warnings
from datetime import timedelta

import numpy as np

from acnportal import acnsim

from mc.core import Acc, guard
from mc import simspace as S

ID = "C18"
LEVEL = "exploration"
TECHNIQUE = (
    "exhaustive enumeration of bounded completed simulations x every ordered subset of constraint ids x thresholds x phase-triple orders on the real analysis functions; "
    "first-principles recomputation (python loops over charging_rates and the network template) as oracle"
)
RULE = (
    "networks N2/N4/N5 (3 stations, heterogeneous voltages, mixed-sign/fractional constraints) and N14 (every station on one phase at -120 degrees) in several registration/constraint orders x session 1..k-subsets x {uncontrolled, scripted}; "
    "per run: all 64 ordered subsets of 4 constraint ids (+None, +duplicates), thresholds {0,.1,1,100}, 6 phase orders; non-trivial = run with >=2 stations drawing current in the same period"
)
ASSUMPTIONS = [
    "constraint_currents returns magnitudes when return_magnitudes=False and complex values when True (inverted w.r.t. its docstring, pinned by the repository's stored outputs): magnitudes are compared in both modes, complex values when complex values are returned",
    "energy totals are defined on the sessions' requested/delivered energy (C02 ties those to the recorded rates); NEMA unbalance is NaN where all three currents are 0",
    "float comparisons within 1e-9 relative",
]
CHUNK = 8

SCHEDS = {
    "unc": ({"kind": "unc"}, None),
    "alt": ({"kind": "script", "prog": {"rule": "altcol", "len": 1, "skew": True}}, 1),
    "fcfs": ({"kind": "greedy", "sort": "fcfs"}, 1),
}
# (station registration order, constraint insertion order, constraint-edit history the network is reached through)
ORDERS = {
    "N2": [(None, None, None), (["PS-C", "PS-A", "PS-B"], [2, 0, 3, 1], "aux")],
    "N4": [(None, None, "upd"), (["PS-B", "PS-C", "PS-A"], [1, 2, 0], None)],
    "N5": [(["PS-C", "PS-B", "PS-A"], [2, 1, 0], "aux")],
    "N14": [(None, None, None)],
}


def bounds(tier, seed):
    return {"kmax": 2 if tier == "quick" else 3, "thresholds": [0, 0.1, 1, 100], "periods": [5, 7.5], "nets": sorted(ORDERS)}


def sess(st, a, stay, kind, i):
    s = {"st": st, "a": a, "d": a + stay, "kind": kind}
    if kind == "big":
        s.update(batt="ideal", e=25.0 + i, cap=100.0, init=0.0, pmax=7.0)
    elif kind == "small":
        s.update(batt="ideal", e=0.45 + 0.01 * i, cap=3.0, init=1.0, pmax=7.0)
    else:
        s.update(batt="l2c", e=2.05 + 0.05 * i, cap=10.0, init=7.8, pmax=6.6)
    return s


def space(tier, seed):
    thorough = tier == "thorough"
    items = []
    for netname in sorted(ORDERS):
        stations = list(S.NETS[netname]["stations"])
        pool = [sess(st, a, sy, kd, i) for i, (st, a, sy, kd) in enumerate(itertools.product(stations, (0, 1), (2, 4) if not thorough else (1, 2, 4), ("big", "small", "l2c")))]
        for ss in S.session_subsets(pool, 1, 3 if thorough else 2):
            if len(ss) == 3 and len({s["st"] for s in ss}) < 3:
                continue
            for oi, _ in enumerate(ORDERS[netname]):
                for sk in ("unc", "alt", "fcfs"):
                    if sk == "fcfs" and (netname == "N2" or len(ss) < 2):
                        continue
                    if sk == "alt" and netname == "N5":
                        continue  # the scripted levels are not all allowable on N5's EVSEs
                    if len(ss) == 3 and sk == "alt" and oi > 0:
                        continue
                    items.append({"net": netname, "sessions": ss, "sk": sk, "oi": oi, "period": 5 if (len(items) % 2 == 0) else 7.5})
    return items


def close(a, b, rel=1e-9):
    if isinstance(a, complex) or isinstance(b, complex):
        return abs(a - b) <= rel * max(1.0, abs(a), abs(b))
    if math.isnan(a) or math.isnan(b):
        return math.isnan(a) and math.isnan(b)
    if math.isinf(a) or math.isinf(b):
        return a == b
    return abs(a - b) <= rel * max(1.0, abs(a), abs(b))


def execute(item, only=None):
    order, corder, hist = ORDERS[item["net"]][item["oi"]]
    sched, k = SCHEDS[item["sk"]]
    scn = {"net": item["net"], "sessions": item["sessions"], "sched": sched, "k": k, "period": item["period"]}
    if order:
        scn["order"], scn["corder"] = order, corder
    if hist:
        scn["hist"] = hist
    tr = S.run_sim(scn)
    viol = []
    info = {"tr": tr, "queries": 0}

    def rep(sig, what, o=None, e=None):
        if len(viol) < 20:
            viol.append((sig, what, o, e))

    if tr.error is not None:
        rep("run:error", "simulation raised %r" % (tr.error,), repr(tr.error), None)
        return viol, info
    sim = tr.sim
    spec = S.NETS[item["net"]]
    ids = sim.network.station_ids
    R = np.array(sim.charging_rates, dtype=float)
    T = R.shape[1]
    row = {sid: [float(R[i, t]) for t in range(T)] for i, sid in enumerate(ids)}
    volt = {sid: spec["stations"][sid][1] for sid in spec["stations"]}
    ang = {sid: spec["stations"][sid][2] for sid in spec["stations"]}
    cons = {name: (coefs, lim) for name, coefs, lim in spec["constraints"]}
    with warnings.catch_warnings():
        warnings.simplefilter("ignore")
        # ---- aggregates ------------------------------------------------------
        ac = acnsim.aggregate_current(sim)
        ap = acnsim.aggregate_power(sim)
        info["queries"] += 2
        if len(ac) != T or len(ap) != T:
            rep("aggregate:length", "aggregate series have lengths %d/%d, %d periods recorded" % (len(ac), len(ap), T), None, T)
        else:
            for t in range(T):
                wc = sum(row[s][t] for s in row)
                wp = sum(row[s][t] * volt[s] for s in row) / 1000.0
                if not close(float(ac[t]), wc):
                    rep("aggregate_current", "aggregate_current[%d] = %r, station sum = %r" % (t, float(ac[t]), wc), float(ac[t]), wc)
                    break
                if not close(float(ap[t]), wp):
                    rep("aggregate_power", "aggregate_power[%d] = %r kW, sum of rate x station voltage = %r kW" % (t, float(ap[t]), wp), float(ap[t]), wp)
                    break

        # a caller converts its result in place (kW -> W): what the library returns next must not have moved
        try:
            ac *= 1000.0
            ap *= 1000.0
        except (TypeError, ValueError):
            pass
        ac2, ap2 = acnsim.aggregate_current(sim), acnsim.aggregate_power(sim)
        info["queries"] += 2
        if len(ac2) == T and len(ap2) == T:
            for t in range(T):
                wc = sum(row[s][t] for s in row)
                wp = sum(row[s][t] * volt[s] for s in row) / 1000.0
                if not close(float(ac2[t]), wc) or not close(float(ap2[t]), wp):
                    rep("aggregate:second-call-after-caller-scaled-its-result", "second call: aggregate_current[%d]=%r (sum %r), aggregate_power[%d]=%r (weighted sum %r)" % (t, float(ac2[t]), wc, t, float(ap2[t]), wp), [float(ac2[t]), float(ap2[t])], [wc, wp])
                    break
        else:
            rep("aggregate:length", "second call: aggregate series have lengths %d/%d" % (len(ac2), len(ap2)), None, T)

        # ---- constraint currents for every ordered subset ---------------------
        def ref_cur(name, t):
            coefs = cons[name][0]
            return sum(c * row[s][t] * cmath.exp(1j * math.radians(ang[s])) for s, c in coefs.items())

        names = [c[0] for c in spec["constraints"]]
        queries = [None]
        for kk in range(1, len(names) + 1):
            for perm in itertools.permutations(names, kk):
                queries.append(list(perm))
        queries.append([names[-1], names[0], names[-1]])  # duplicate id
        queries.append([])  # nothing requested: nothing returned
        for q in queries:
            for flag in (False, True):
                info["queries"] += 1
                try:
                    got = acnsim.constraint_currents(sim, return_magnitudes=flag, constraint_ids=q)
                except Exception as exc:
                    guard(exc)
                    rep("constraint_currents:exception", "constraint_currents(constraint_ids=%s) raised %r" % (q, exc), repr(exc), None)
                    continue
                want_keys = set(names if q is None else q)
                if set(got) != want_keys:
                    rep("constraint_currents:keys", "constraint_currents(constraint_ids=%s) returned keys %s" % (q, sorted(got)), sorted(got), sorted(want_keys))
                    continue
                bad = False
                for name in want_keys:
                    series = got[name]
                    if len(series) != T:
                        rep("constraint_currents:length", "series of %s has %d entries" % (name, len(series)), len(series), T)
                        bad = True
                        break
                    for t in range(T):
                        w = ref_cur(name, t)
                        g = series[t]
                        if np.iscomplexobj(series):
                            ok = close(complex(g), w)
                        else:
                            ok = close(float(g), abs(w))
                        if not ok:
                            natural = q is None or q == [n for n in sim.network.constraint_index if n in q]
                            rep(
                                "constraint_currents:%s" % ("value" if natural else "wrong-name-for-requested-order"),
                                "constraint_currents(constraint_ids=%s)[%r][%d] = %r, the phase-aware weighted sum for %r is %r (|.|=%r)" % (q, name, t, g, name, w, abs(w)),
                                str(g),
                                str(w),
                            )
                            bad = True
                            break
                    if bad:
                        break
        # ---- energy metrics ------------------------------------------------------
        evs = list(sim.ev_history.values())
        req = sum(s["e"] for s in item["sessions"])
        dele = sum(float(tr.evs[s["sid"]].energy_delivered) for s in item["sessions"])
        info["queries"] += 3
        if not close(float(acnsim.total_energy_requested(sim)), req):
            rep("total_energy_requested", "total_energy_requested = %r, sessions request %r" % (acnsim.total_energy_requested(sim), req), float(acnsim.total_energy_requested(sim)), req)
        if not close(float(acnsim.total_energy_delivered(sim)), dele):
            rep("total_energy_delivered", "total_energy_delivered = %r, sessions received %r" % (acnsim.total_energy_delivered(sim), dele), float(acnsim.total_energy_delivered(sim)), dele)
        if not close(float(acnsim.proportion_of_energy_delivered(sim)), dele / req):
            rep("proportion_of_energy_delivered", "proportion_of_energy_delivered = %r, delivered/requested = %r" % (acnsim.proportion_of_energy_delivered(sim), dele / req), float(acnsim.proportion_of_energy_delivered(sim)), dele / req)
        met_outcomes = []
        for th in (0, 0.1, 1, 100):
            info["queries"] += 1
            w = sum(1 for s in item["sessions"] if s["e"] - float(tr.evs[s["sid"]].energy_delivered) < th) / len(item["sessions"])
            g = acnsim.proportion_of_demands_met(sim, threshold=th)
            met_outcomes.append(w)
            if any(abs(s["e"] - float(tr.evs[s["sid"]].energy_delivered) - th) < 1e-9 for s in item["sessions"]):
                continue  # guard band: a remaining demand exactly on the threshold is not decided by the property
            if not close(float(g), w):
                rep("proportion_of_demands_met", "proportion_of_demands_met(threshold=%r) = %r, expected %r" % (th, g, w), float(g), w)
        info["queries"] += 1
        w = sum(1 for s in item["sessions"] if s["e"] - float(tr.evs[s["sid"]].energy_delivered) < 0.1) / len(item["sessions"])
        if not close(float(acnsim.proportion_of_demands_met(sim)), w):
            rep("proportion_of_demands_met:default", "default threshold is not 0.1", float(acnsim.proportion_of_demands_met(sim)), w)
        # ---- NEMA unbalance, phase triples in every order ----------------------------
        line_names = [n for n in names if n != "pod"][:3] if len(names) >= 4 else names[:3]
        for trip in itertools.permutations(line_names, 3):
            info["queries"] += 1
            try:
                got = acnsim.current_unbalance(sim, list(trip))
            except Exception as exc:
                guard(exc)
                rep("current_unbalance:exception", "current_unbalance(%s) raised %r" % (trip, exc), repr(exc), None)
                continue
            if len(got) != T:
                rep("current_unbalance:length", "unbalance series has %d entries" % len(got), len(got), T)
                continue
            for t in range(T):
                mags = [abs(ref_cur(n, t)) for n in trip]
                mean = sum(mags) / 3.0
                w = (max(mags) - mean) / mean if mean != 0 else float("nan")
                if not close(float(got[t]), w, 1e-9):
                    rep("current_unbalance:value", "current_unbalance(%s)[%d] = %r, NEMA formula gives %r (|I| = %s)" % (trip, t, float(got[t]), w, mags), float(got[t]), w)
                    break
        # ---- datetimes ------------------------------------------------------------------
        info["queries"] += 1
        dts = acnsim.datetimes_array(sim)
        if len(dts) != sim.iteration:
            rep("datetimes_array:length", "datetimes_array has %d entries, %d periods were simulated" % (len(dts), sim.iteration), len(dts), sim.iteration)
        else:
            for i, d in enumerate(dts):
                w = np.datetime64(S.START + timedelta(minutes=item["period"] * i))
                if d != w:
                    rep("datetimes_array:value", "datetimes_array[%d] = %s, start + %d x period = %s" % (i, d, i, w), str(d), str(w))
                    break
    info["met"] = tuple(met_outcomes)
    return viol, info


def run(item):
    acc = Acc()
    viol, info = execute(item)
    tr = info["tr"]
    acc.evals += 1 + info["queries"]
    acc.transitions += len(tr.periods)
    acc.count("analysis_queries", info["queries"])
    if tr.error is None:
        R = tr.sim.charging_rates
        acc.outcome((item["net"], info.get("met"), int((R > 0).sum())))
        if np.any((R > 0).sum(axis=0) >= 2):
            acc.nt((item["net"], item["oi"], item["sk"], item["period"], tuple((s["st"], s["a"], s["d"], s["kind"]) for s in item["sessions"])))
    for sig, what, o, e in viol:
        acc.violation(sig, what, item, o, e)
    acc.sample({"net": item["net"], "order": ORDERS[item["net"]][item["oi"]], "sk": item["sk"], "sessions": [(s["st"], s["a"], s["d"], s["kind"]) for s in item["sessions"]]}, cap=2)
    return acc


def replay(scn):
    viol, _ = execute(scn)
    return [{"signature": v[0], "what": v[1], "observed": v[2], "expected": v[3]} for v in viol]
