"""C05 - scheduler invoked exactly when required; sees the true, isolated state."""
from __future__ import annotations

import warnings
from datetime import timedelta

import numpy as np

from mc.core import Acc, guard
from mc import simspace as S

ID = "C05"
LEVEL = "model_checking"
TECHNIQUE = "exhaustive enumeration of event histories x max_recompute x recompute events through the real Simulator with a recording scheduler (Interface answers vs true state at every invocation) and a mutating scheduler (differential: trajectory must equal the recording run)"
RULE = (
    "all 1..k-subsets of a session alphabet x max_recompute in {None,1,2,3} x recompute-event sets x inner scheduler; each scenario is run twice (recording / mutating program); "
    "per invocation: period set vs reference rule, occupancy, active sessions + true energies, previous rates/peak/pilots, datetime, infrastructure; "
    "states = (period, occupancy, last-invocation distance, k); non-trivial = scenario with >=3 invocations of which one is not caused by an event"
)
ASSUMPTIONS = [
    "periods 5 min throughout, plus a block with 7.5 s, 4.1 min and 8.45 min (not a whole number of seconds / not exact in binary); the clock is compared to the millisecond",
    "true state is read from the harness-held EV objects and the per-period monitor log, not through Interface",
    "the mutating program overwrites every object the public Interface hands out (SessionInfo, InfrastructureInfo, deprecated active_evs copies, get_constraints arrays, returned dicts/lists)",
    "last_applied_pilot_signals is compared from the third period on, for sessions that arrived before the previous period ended (documented behaviour)",
    "the scheduler program also queries its interface at registration (before any event); 'two_phase' histories queue the later arrivals only after run() has returned once (arrival >= the iteration reached) and call run() again",
]
CHUNK = 30


def bounds(tier, seed):
    return {"kmax": 2 if tier == "quick" else 3, "max_recompute": [None, 1, 2, 3], "recompute_sets": [[], [1], [0, 5]], "inner": ["max2", "unc"]}


def sess(st, a, stay, en):
    s = {"st": st, "a": a, "d": a + stay, "batt": "ideal"}
    if en == "large":
        s.update(e=40.0, cap=80.0, init=5.0, pmax=7.0)
    elif en == "capped":  # the battery is full after one period, the request (6 kWh) stays open: still a not-yet-satisfied session
        s.update(e=6.0, cap=2.0, init=1.5, pmax=7.0)
    else:  # satisfied after one or two periods at full rate (period = 5 min)
        s.update(e=0.7, cap=2.0, init=0.5, pmax=7.0)
    return s


INNER = {"max2": {"kind": "script", "prog": {"rule": "max", "len": 2}}, "unc": {"kind": "unc"}}


EDIT_LIMIT = 17.3  # new limit of the last-added constraint of N2 ("lc") in two-phase histories with an edit


def space(tier, seed):
    thorough = tier == "thorough"
    pool = [sess(st, a, sy, en) for st in ("PS-A", "PS-B", "PS-C") for a in (0, 1, 2) for sy in ((1, 2, 4) if thorough else (1, 3)) for en in ("large", "small")]
    pool += [sess(st, a, 3, "capped") for st in ("PS-A", "PS-C") for a in (0, 1)]
    items = []
    for ss in S.session_subsets(pool, 1, 2):
        for k in (None, 1, 2, 3):
            for rc in ([], [1], [0, 5]):
                for inner in ("max2", "unc"):
                    items.append({"net": "N2", "sessions": ss, "k": k, "recompute": rc, "inner": inner, "sched": INNER[inner], "period": 5})
    for ss in S.session_subsets(pool, 2, 2):
        a, b = sorted(ss, key=lambda x: x["a"])
        if a["d"] < b["a"]:  # the first run() ends at iteration a.d + 1: the later arrival must not lie in the past
            for k in (None, 1, 2):
                for inner in ("max2", "unc"):
                    items.append({"net": "N2", "sessions": ss, "k": k, "recompute": [], "inner": inner, "sched": INNER[inner], "period": 5, "two_phase": b["a"]})
                    if k == 1:
                        # ... and with a deep copy of the simulator taken between the two stages, both carried on
                        items.append({"net": "N2", "sessions": ss, "k": k, "recompute": [], "inner": inner, "sched": INNER[inner], "period": 5, "two_phase": b["a"], "deepcopy_mid": True})
                    # ... and with the limit of the last-added constraint changed between the two runs
                    # (update_constraint under the same name: ids and shapes stay, only the numbers move)
                    items.append({"net": "N2", "sessions": ss, "k": k, "recompute": [], "inner": inner, "sched": INNER[inner], "period": 5, "two_phase": b["a"], "edit": EDIT_LIMIT})
                # a deep copy of the simulator (made before anything ran) is a simulator of its own
                items.append({"net": "N2", "sessions": ss, "k": 1, "recompute": [], "inner": "unc", "sched": INNER["unc"], "period": 5, "deepcopy": True})
    # a recompute request that reaches the queue late (between two run() stages, timestamp in the past)
    for st1, st2 in (("PS-A", "PS-B"), ("PS-C", "PS-C")):
        for stay1 in (1, 2):
            for a2 in (5, 6, 8):
                for en in ("large", "small"):
                    ss = [dict(sess(st1, 0, stay1, en), sid="ev0"), dict(sess(st2, a2, 3, "large"), sid="ev1")]
                    for k in (None, 2, 3):
                        for inner in ("max2", "unc"):
                            items.append({"net": "N2", "sessions": ss, "k": k, "recompute": [], "inner": inner, "sched": INNER[inner], "period": 5, "two_phase": a2, "late_rc": True})
    # an explicit early UnplugEvent queued by the user: the simulator's own unplug at the departure finds the station
    # empty - it is still an event of that period
    for ss in S.session_subsets(pool, 1, 2):
        long_ = [s for s in ss if s["d"] - s["a"] >= 3]
        if not long_:
            continue
        long_[0]["xu"] = long_[0]["a"] + 1
        for k in (None, 2, 3):
            for inner in ("max2", "unc"):
                items.append({"net": "N2", "sessions": ss, "k": k, "recompute": [], "inner": inner, "sched": INNER[inner], "period": 5})
    # simulations whose start is an AWARE datetime (pytz / zoneinfo) and which run across a daylight-saving change:
    # the scheduler's clock is start + elapsed time (compared as instants)
    for tzkind in ("pytz", "zoneinfo"):
        for day in ([2019, 11, 3], [2020, 3, 8], [2019, 7, 1]):
            for ss in ([dict(sess("PS-A", 0, 7, "large"), sid="ev0")], [dict(sess("PS-B", 1, 4, "large"), sid="ev0"), dict(sess("PS-C", 3, 5, "small"), sid="ev1")]):
                items.append({"net": "N2", "sessions": ss, "k": 1, "recompute": [], "inner": "max2", "sched": INNER["max2"], "period": 30, "start": [tzkind, "America/Los_Angeles"] + day})
    # periods that are not a whole number of seconds (7.5 s) or whose length in seconds is not exact in binary (4.1 min,
    # 8.45 min): the scheduler's clock is start + t x period all the same
    for per in (0.125, 4.1, 8.45):
        for ss in ([dict(sess("PS-A", 0, 7, "large"), sid="ev0")], [dict(sess("PS-B", 1, 4, "large"), sid="ev0"), dict(sess("PS-C", 3, 6, "large"), sid="ev1")]):
            for k in (None, 1, 2):
                items.append({"net": "N2", "sessions": ss, "k": k, "recompute": [], "inner": "max2", "sched": INNER["max2"], "period": per})
    if thorough:
        pool3 = [sess(st, a, sy, en) for st in ("PS-A", "PS-B", "PS-C") for a in (0, 1) for sy in (1, 3) for en in ("large", "small")]
        for ss in S.session_subsets(pool3, 3, 3):
            for k in (None, 1, 2):
                for rc in ([], [0, 5]):
                    items.append({"net": "N2", "sessions": ss, "k": k, "recompute": rc, "inner": "max2", "sched": INNER["max2"], "period": 5})
    return items


def expected_invocations(scn):
    L = S.horizon_of(scn)
    evt = set(scn.get("recompute", []))
    for s in scn["sessions"]:
        evt.add(s["a"])
        evt.add(s["d"])
        if s.get("xu") is not None:
            evt.add(s["xu"])
    if scn.get("late_rc"):
        # handled in the period in which the second run() starts: one after the last event of the first stage
        evt.add(max(s["d"] for s in scn["sessions"] if s["a"] < scn["two_phase"]) + 1)
    k, last, out = scn["k"], None, []
    for t in range(L + 1):
        if t in evt or (k is not None and (last is None or t - last >= k)):
            out.append(t)
            last = t
    return out


def start_of(scn):
    if not scn.get("start"):
        return S.START
    kind, zone, y, m, d = scn["start"]
    from datetime import datetime

    if kind == "pytz":
        import pytz

        return pytz.timezone(zone).localize(datetime(y, m, d, 0, 0))
    import zoneinfo

    return datetime(y, m, d, 0, 0, tzinfo=zoneinfo.ZoneInfo(zone))


def same_instant(a, b):
    if (a.tzinfo is None) != (b.tzinfo is None):
        return False
    # equal up to a millisecond: a period that is not a whole number of microseconds leaves the last digit of the
    # product to the order of the float operations, which the property does not fix
    if a.tzinfo is None:
        return abs((a - b).total_seconds()) <= 1e-3
    from datetime import timezone

    return abs((a.astimezone(timezone.utc) - b.astimezone(timezone.utc)).total_seconds()) <= 1e-3


def arr(x):
    return np.asarray(x, dtype=float)


def make_on_call(scn, holder, log, mutate):
    tpl = S.build_network(scn["net"], cls=S.MonNet)

    def on_call(rec, active_sessions, r):
        iface = rec.interface
        sim = iface._simulator
        evs, periods = holder["evs"], holder["periods"]
        t = sim.iteration
        c = {"t": t}
        c["occ"] = {sid: (e.ev.session_id if e.ev is not None else None) for sid, e in sim.network._EVSEs.items()}
        c["sessions"] = {
            s.session_id: (s.station_id, s.requested_energy, s.energy_delivered, s.arrival, s.departure, s.estimated_departure, s.current_time, len(s.min_rates), len(s.max_rates))
            for s in active_sessions
        }
        c["true_sessions"] = {
            sid: (ev.station_id, ev.requested_energy, ev.energy_delivered, ev.arrival, ev.departure, ev.estimated_departure, t, min(ev.departure - ev.arrival, ev.departure - t), min(ev.departure - ev.arrival, ev.departure - t))
            for sid, ev in evs.items()
            if c["occ"].get(ev.station_id) == sid and ev.requested_energy - ev.energy_delivered > 1e-3
        }
        c["current_time"] = iface.current_time
        c["current_datetime"] = iface.current_datetime
        c["period"] = iface.period
        c["max_recompute_time"] = iface.max_recompute_time
        c["rates"] = dict(iface.last_actual_charging_rate)
        c["pilots"] = dict(iface.last_applied_pilot_signals)
        c["peak"] = iface.get_prev_peak()
        info = iface.infrastructure_info()
        c["info"] = info
        c["per_station"] = {
            st: (iface.max_pilot_signal(st), iface.min_pilot_signal(st), iface.evse_voltage(st), iface.evse_phase(st), iface.allowable_pilot_signals(st))
            for st in sim.network.station_ids
        }
        c["amp_periods"] = {s.session_id: iface.remaining_amp_periods(s) for s in active_sessions}
        c["nperiods"] = len(periods)
        log.append(c)
        if mutate:
            holder["after"] = lambda: do_mutate(iface, active_sessions, info)

    return on_call, tpl


def do_mutate(iface, active_sessions, info):
    """overwrite everything the public Interface handed out"""
    for s in active_sessions:
        s.station_id = "ZZ"
        s.session_id = "ZZ"
        s.requested_energy = -5.0
        s.energy_delivered = 1e9
        s.arrival = -3
        s.departure = 99
        s.estimated_departure = 99
        s.min_rates[:] = 77.0
        s.max_rates[:] = -77.0
    for fresh in (info, iface.infrastructure_info()):
        for name in ("constraint_matrix", "constraint_limits", "phases", "voltages", "max_pilot", "min_pilot"):
            a = getattr(fresh, name)
            if a is not None and getattr(a, "size", 0):
                a[...] = -7.0
        fresh.is_continuous[...] = False
        for a in fresh.allowable_pilots:
            if a is not None and len(a):
                a[...] = 99.0
        fresh.constraint_ids[:] = ["x"] * len(fresh.constraint_ids)
        fresh.station_ids[:] = ["y"] * len(fresh.station_ids)
    with warnings.catch_warnings():
        warnings.simplefilter("ignore")
        for ev in iface.active_evs:  # deprecated accessor: documented to return copies
            ev._energy_delivered = 1e9
            ev._station_id = "ZZ"
            ev._battery._current_charge = -1.0
            ev._departure = 0
    cons = iface.get_constraints()
    if cons.constraint_matrix is not None and cons.constraint_matrix.size:
        cons.constraint_matrix[...] = 0.0
        cons.magnitudes[...] = 1e9
    if isinstance(cons.constraint_index, list):
        cons.constraint_index[:] = ["x"] * len(cons.constraint_index)
    if isinstance(cons.evse_index, list):
        cons.evse_index.reverse()
    for st in list(iface._simulator.network.station_ids):
        cont, allow = iface.allowable_pilot_signals(st)
        if allow:
            allow[0] = -1
    d = iface.last_actual_charging_rate
    d.clear()
    d2 = iface.last_applied_pilot_signals
    d2["zz"] = 1


def one_run(scn, mutate):
    holder, log = {}, []
    on_call, tpl = make_on_call(scn, holder, log, mutate)

    def on_return(rec, sessions, r, sched):
        f = holder.pop("after", None)
        if f is not None:
            f()
        return sched

    err = None
    with warnings.catch_warnings(record=True):
        warnings.simplefilter("always")
        # the scheduler program queries its interface at registration already (peek), and - for histories
        # marked two_phase - the run is split: the later arrivals are only queued after run() returned once
        sim, rec, evs, periods = S.build_sim(scn, on_call=on_call, on_return=on_return, peek=True)
        if scn.get("start"):
            sim.start = start_of(scn)
        holder["evs"], holder["periods"] = evs, periods
        later = rec.later
        try:
            sim.run()
            if later:
                rec.interface.active_sessions(), rec.interface.last_actual_charging_rate  # a look between the runs
                if scn.get("edit") is not None:
                    from acnportal.acnsim.network import Current

                    cname, coefs, _ = S.NETS[scn["net"]]["constraints"][-1]
                    sim.network.update_constraint(cname, Current(dict(coefs)), scn["edit"], cname)
                if scn.get("late_rc"):
                    # a recompute request that arrives late: its timestamp lies two periods in the past
                    from acnportal.acnsim.events import RecomputeEvent

                    later = list(later) + [RecomputeEvent(sim.iteration - 2)]
                sim.event_queue.add_events(later)
                sim.run()
        except Exception as exc:
            guard(exc)
            err = exc
    return sim, rec, evs, periods, log, tpl, err


def close(a, b):
    return abs(a - b) <= 1e-9 * max(1.0, abs(a), abs(b))


def check_recording(scn, sim, periods, log, tpl, out):
    inv = [c["t"] for c in log]
    exp = expected_invocations(scn)
    if inv != exp:
        kind = "twice" if len(set(inv)) < len(inv) else ("missing" if set(exp) - set(inv) else "extra")
        out("invocations:" + kind, "scheduler invoked in periods %s, rule says %s (k=%s, recompute=%s)" % (inv, exp, scn["k"], scn.get("recompute")), inv, exp)
    ss = scn["sessions"]
    volt = {st: v for st, (_, v, _) in S.NETS[scn["net"]]["stations"].items()}
    for c in log:
        t = c["t"]
        occ = {st: None for st in volt}
        for s in ss:
            if s["a"] <= t < (s["d"] if s.get("xu") is None else min(s["d"], s["xu"])):
                occ[s["st"]] = s["sid"]
        if c["occ"] != occ:
            out("call:before-events", "invocation in period %d saw occupancy %s, after this period's events it is %s" % (t, c["occ"], occ), c["occ"], occ)
            return
        if c["nperiods"] != t:
            out("call:period-count", "invocation in period %d but %d periods already completed" % (t, c["nperiods"]), c["nperiods"], t)
        if c["current_time"] != t:
            out("call:current_time", "current_time %s in period %d" % (c["current_time"], t), c["current_time"], t)
        # the property's formula, literally: start + t x period in Python's datetime arithmetic (for an aware start this
        # keeps the start's tzinfo; a pytz-localized start carries a fixed offset, so this is elapsed real time)
        want_dt = start_of(scn) + timedelta(minutes=scn["period"] * t)
        if not same_instant(c["current_datetime"], want_dt):
            out("call:current_datetime", "current_datetime %s in period %d, start + %d x period is %s" % (c["current_datetime"], t, t, want_dt), str(c["current_datetime"]), str(want_dt))
        if c["period"] != scn["period"] or c["max_recompute_time"] != scn["k"]:
            out("call:period-or-k", "period/max_recompute_time wrong", (c["period"], c["max_recompute_time"]), (scn["period"], scn["k"]))
        # sessions -----------------------------------------------------------------
        got, true = c["sessions"], c["true_sessions"]
        if set(got) != set(true):
            out("call:active-set", "period %d: scheduler was shown sessions %s, connected and unsatisfied are %s" % (t, sorted(got), sorted(true)), sorted(got), sorted(true))
            return
        for sid in got:
            g, tr = got[sid], true[sid]
            if g[:2] != tr[:2] or not close(g[2], tr[2]) or g[3:] != tr[3:]:
                out("call:session-fields", "period %d session %s: shown %s, true %s" % (t, sid, g, tr), g, tr)
                return
        # previous period -----------------------------------------------------------
        prev = periods[t - 1] if t >= 1 and t - 1 < len(periods) else None
        exp_rates = {}
        exp_pil = {}
        for sid, tr in true.items():
            st = tr[0]
            exp_rates[sid] = prev["rate"][st] if prev is not None and prev["occ"][st] == sid else 0
            if t - 1 > 0 and tr[3] <= t - 1:
                exp_pil[sid] = prev["pilot"][st]
        if set(c["rates"]) != set(exp_rates) or any(not close(c["rates"][k], exp_rates[k]) for k in exp_rates):
            out("call:last-rates", "period %d: last_actual_charging_rate %s, previous period's rates %s" % (t, c["rates"], exp_rates), c["rates"], exp_rates)
        if set(c["pilots"]) != set(exp_pil) or any(not close(c["pilots"][k], exp_pil[k]) for k in exp_pil):
            out("call:last-pilots", "period %d: last_applied_pilot_signals %s, previous period's pilots %s" % (t, c["pilots"], exp_pil), c["pilots"], exp_pil)
        exp_peak = max([0.0] + [sum(p["rate"].values()) for p in periods[:t]])
        if not close(c["peak"], exp_peak):
            out("call:prev-peak", "period %d: get_prev_peak %s, max aggregate so far %s" % (t, c["peak"], exp_peak), float(c["peak"]), exp_peak)
        for sid, ap in c["amp_periods"].items():
            tr = true[sid]
            e = (tr[1] - tr[2]) * 1000 / volt[tr[0]] * 60 / scn["period"]
            if not close(ap, e):
                out("call:amp-periods", "remaining_amp_periods(%s)=%s, expected %s" % (sid, ap, e), ap, e)
        # infrastructure --------------------------------------------------------------
        info = c["info"]
        spec = S.NETS[scn["net"]]
        sts = list(spec["stations"])
        ok = (
            list(info.station_ids) == sts
            and list(info.constraint_ids) == [cn for cn, _, _ in spec["constraints"]]
            and np.array_equal(arr(info.constraint_matrix), arr(tpl.constraint_matrix))
            and np.allclose(arr(info.constraint_limits), [l for _, _, l in spec["constraints"]][:-1] + [scn["edit"] if (scn.get("edit") is not None and t >= scn["two_phase"]) else spec["constraints"][-1][2]], rtol=0, atol=0)
            and list(arr(info.phases)) == [spec["stations"][s][2] for s in sts]
            and list(arr(info.voltages)) == [spec["stations"][s][1] for s in sts]
            and list(arr(info.max_pilot)) == [tpl._EVSEs[s].max_rate for s in sts]
            and list(arr(info.min_pilot)) == [tpl._EVSEs[s].min_rate for s in sts]
            and [list(a) for a in info.allowable_pilots] == [list(tpl._EVSEs[s].allowable_pilot_signals) for s in sts]
            and list(info.is_continuous) == [tpl._EVSEs[s].is_continuous for s in sts]
        )
        for j, (cn, coefs, lim) in enumerate(spec["constraints"]):
            for i, st in enumerate(sts):
                if info.constraint_matrix[j][i] != coefs.get(st, 0):
                    ok = False
        if not ok:
            out("call:infrastructure", "period %d: infrastructure_info does not describe the network" % t, None, None)
            return
        for i, st in enumerate(sts):
            mx, mn, v, ph, (cont, allow) = c["per_station"][st]
            if (mx, mn, v, ph, cont, list(allow)) != (tpl._EVSEs[st].max_rate, tpl._EVSEs[st].min_rate, spec["stations"][st][1], spec["stations"][st][2], tpl._EVSEs[st].is_continuous, list(tpl._EVSEs[st].allowable_pilot_signals)):
                out("call:per-station-accessors", "period %d: accessor values for %s wrong" % (t, st), None, None)
                return


def net_fingerprint(net):
    return (
        None if net.constraint_matrix is None else net.constraint_matrix.tolist(),
        net.magnitudes.tolist(),
        list(net.constraint_index),
        net._voltages.tolist(),
        net._phase_angles.tolist(),
        net.max_pilot_signals.tolist(),
        net.min_pilot_signals.tolist(),
        [a.tolist() for a in net.allowable_rates],
        net.is_continuous.tolist(),
        list(net.station_ids),
        dict(net._station_ids_dict),
    )


def execute(scn):
    viol = []
    out = lambda sig, what, o=None, e=None: viol.append((sig, what, o, e))
    sim, rec, evs, periods, log, tpl, err = one_run(scn, mutate=False)
    if err is not None:
        out("exception:%s" % type(err).__name__, "recording run raised %r" % err, repr(err), None)
        return sim, periods, log, viol
    check_recording(scn, sim, periods, log, tpl, out)
    if scn.get("deepcopy"):
        import copy

        with warnings.catch_warnings():
            warnings.simplefilter("ignore")
            orig, _, evs_o, _ = S.build_sim(scn, monitor=False)
            twin = copy.deepcopy(orig)
            try:
                twin.run()  # the ORIGINAL stays at period 0 while its copy runs
                if not (np.array_equal(twin.charging_rates, sim.charging_rates) and np.array_equal(twin.pilot_signals, sim.pilot_signals) and S.events_key(twin) == S.events_key(sim)):
                    out("deepcopy:copy-runs-differently", "a deep copy of the simulator, run on its own, does not reproduce the simulation (its scheduler must observe the copy, not the original)", np.array(twin.charging_rates).tolist(), np.array(sim.charging_rates).tolist())
                if orig.iteration != 0 or any(e.energy_delivered != 0 for e in evs_o.values()):
                    out("deepcopy:original-altered", "running the deep copy advanced / charged the original", orig.iteration, 0)
            except Exception as exc:
                guard(exc)
                out("deepcopy:exception:%s" % type(exc).__name__, "running a deep copy of the simulator raised %r" % (exc,), repr(exc), None)
    if scn.get("deepcopy_mid"):
        import copy

        with warnings.catch_warnings():
            warnings.simplefilter("ignore")
            orig, rec_o, evs_o, _ = S.build_sim(scn, monitor=False)
            try:
                orig.run()  # first stage
                twin = copy.deepcopy(orig)  # a snapshot taken while the simulation is under way
                later_twin = copy.deepcopy(rec_o.later)
                twin.event_queue.add_events(later_twin)
                twin.run()  # the copy finishes FIRST; the original still stands at the end of its first stage
                stage1 = orig.iteration
                orig.event_queue.add_events(rec_o.later)
                orig.run()
                for who, x in (("copy", twin), ("original", orig)):
                    if not (np.array_equal(x.charging_rates, sim.charging_rates) and np.array_equal(x.pilot_signals, sim.pilot_signals) and S.events_key(x) == S.events_key(sim)):
                        out("deepcopy-midrun:%s-differs" % who, "a deep copy taken between two stages of a run: the %s does not reproduce the simulation (each scheduler must observe its own simulator)" % who, np.array(x.charging_rates).tolist(), np.array(sim.charging_rates).tolist())
            except Exception as exc:
                guard(exc)
                out("deepcopy-midrun:exception:%s" % type(exc).__name__, "deep copy between two stages raised %r" % (exc,), repr(exc), None)
    sim2, rec2, evs2, periods2, log2, _, err2 = one_run(scn, mutate=True)
    if err2 is not None:
        out("mutating:exception:%s" % type(err2).__name__, "run with the mutating scheduler raised %r" % err2, repr(err2), None)
        return sim, periods, log, viol
    same = (
        sim.charging_rates.shape == sim2.charging_rates.shape
        and np.array_equal(sim.charging_rates, sim2.charging_rates)
        and np.array_equal(sim.pilot_signals, sim2.pilot_signals)
        and S.events_key(sim) == S.events_key(sim2)
        and {k: v.energy_delivered for k, v in evs.items()} == {k: v.energy_delivered for k, v in evs2.items()}
        and [c["t"] for c in log] == [c["t"] for c in log2]
        and [c["sessions"] for c in log] == [c["sessions"] for c in log2]
        and sim.peak == sim2.peak
    )
    if not same:
        out("mutating:trajectory-differs", "mutating the objects handed to the scheduler changed the simulation", None, None)
    if net_fingerprint(sim2.network) != net_fingerprint(tpl if scn.get("edit") is None else sim.network):
        out("mutating:network-altered", "mutating the objects handed to the scheduler altered the network description", None, None)
    return sim, periods, log, viol


def run(scn):
    acc = Acc()
    sim, periods, log, viol = execute(scn)
    acc.evals += 2
    acc.transitions += 2 * len(periods)
    inv = [c["t"] for c in log]
    last = None
    for p in periods:
        t = p["t"]
        if t in inv:
            last = t
        acc.state((tuple(v is not None for v in p["occ"].values()), None if last is None else t - last, scn["k"], t in inv))
    acc.outcome((tuple(inv), scn["k"]))
    evt = {s["a"] for s in scn["sessions"]} | {s["d"] for s in scn["sessions"]} | set(scn.get("recompute", []))
    if len(inv) >= 3 and any(t not in evt for t in inv):
        acc.nt((tuple((s["st"], s["a"], s["d"], s["e"]) for s in scn["sessions"]), scn["k"], tuple(scn["recompute"]), scn["inner"]))
    for sig, what, o, e in viol:
        acc.violation(sig, what, scn, o, e)
    acc.sample({k: scn[k] for k in ("sessions", "k", "recompute", "inner")}, cap=2)
    return acc


def replay(scn):
    _, _, _, viol = execute(scn)
    return [{"signature": s, "what": w, "observed": o, "expected": e} for s, w, o, e in viol]
