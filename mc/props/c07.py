"""C07 - sorting-based algorithms only emit safe schedules (checked at every invocation
inside real simulations, against the real network check and the real EVSE predicates)."""
from __future__ import annotations

import numpy as np

from acnportal.acnsim.models.evse import InvalidRateError

from mc.core import Acc
from mc import simspace as S
from mc import algspace as A

ID = "C07"
LEVEL = "model_checking"
TECHNIQUE = "exhaustive enumeration of bounded simulations x all 40 option combinations of the sorting algorithms; safety oracle (real network.is_feasible, real EVSE acceptance, true remaining demand, estimator bound) evaluated at every scheduler invocation reached"
RULE = (
    "networks N2/N5 (three-phase, mixed-sign, continuous + finite EVSEs) x all 1..k-subsets of a session alphabet (station x arrival x stay x {battery-limited, fast, nearly finished, two-stage}) "
    "x {greedy, round-robin} x 5 sort orders x estimator on/off x uninterrupted on/off; states = (occupancy, per-session remaining demand bucket, estimator bounds) at each invocation; "
    "non-trivial = invocation in which some pilot is limited below the EVSE maximum by a constraint, the remaining demand or the estimator"
)
ASSUMPTIONS = [
    "default network tolerances (the algorithms hard-code them); deadband EVSEs excluded as the property says; round-robin increment 1 A (plus a block with 0.5 A and 2.5 A)",
    "true remaining demand is read from the harness-held EV objects",
    "extra blocks: a rampdown estimator without upward probing (bound can be exactly 0 A) with batteries that fill before the request is met; a network with an EVSE without maximum rate; two run() stages with the last-added constraint tightened in between",
    "small scope: 3 stations, <=3 sessions, <=6 periods",
]
CHUNK = 20


def bounds(tier, seed):
    return {"nets": ["N2", "N5", "N7"], "kmax": 3 if tier == "thorough" else 2, "options": 40}


def space(tier, seed):
    return list(A.scenarios(tier, ["N2", "N5", "N7"])) + list(A.extra_scenarios(tier)) + list(A.inc_scenarios(tier)) + list(A.period_scenarios(tier)) + list(A.three_scenarios(tier))


def check(scn, tr, out):
    sim = tr.sim
    net = sim.network
    ids = net.station_ids
    opt = scn["sched"]
    volt = net.voltages
    limited = False
    for c in tr.calls:
        t, sched = c["t"], c["out"]
        ctx = "period %d (%s/%s est=%s unint=%s)" % (t, opt["kind"], opt["sort"], opt["est"], opt["unint"])
        if set(sched) != set(ids) or any(len(v) != 1 for v in sched.values()):
            out("shape", "%s: schedule does not give one rate to every station: %s" % (ctx, sched), sched, None)
            return limited
        M = np.array([[float(sched[s][0])] for s in ids])
        if not net.is_feasible(M):
            cur = np.abs(net.constraint_current(M))[:, 0].tolist()
            out("infeasible:%s" % opt["kind"], "%s: schedule %s is infeasible for the network (constraint currents %s, limits %s)" % (ctx, sched, cur, net.magnitudes.tolist()), sched, net.magnitudes.tolist())
        active = {a["st"]: a for a in c["active"]}
        for st in ids:
            p = float(sched[st][0])
            espec = S.NETS[scn["net"]]["stations"][st][0]
            if not S.spec_accepts(espec, p):
                out("pilot-not-accepted:%s" % opt["kind"], "%s: pilot %s for %s is not accepted by its EVSE" % (ctx, p, st), p, list(espec))
            if st not in active:
                if p != 0:
                    out("pilot-without-session", "%s: station %s has no active session but pilot %s" % (ctx, st, p), p, 0)
                continue
            a = active[st]
            amp_periods = a["remaining_kwh"] * 1000 / volt[st] * 60 / scn["period"]
            if p > amp_periods * (1 + 1e-9) + 1e-9:
                out("above-remaining-demand:%s" % opt["kind"], "%s: pilot %s for session %s exceeds its remaining demand of %.6g A*periods" % (ctx, p, a["sid"], amp_periods), p, amp_periods)
            if p < S.spec_max_rate(espec) - 1e-9:
                limited = True
            if opt["est"]:
                b = c["bounds"].get(a["sid"])
                if b is None:
                    pass  # the estimator holds no bound for this session (it may forget sessions it is not asked about): nothing to respect
                else:
                    allowed = max(b, S.spec_min_rate(espec) if opt["unint"] else 0.0)
                    if p > allowed + 1e-9:
                        out("above-estimator-bound:%s" % opt["kind"], "%s: pilot %s for session %s (station %s) exceeds the estimator's bound %.6g" % (ctx, p, a["sid"], st, b), p, allowed)
    if tr.error is not None:
        kind = "invalid-rate" if isinstance(tr.error, InvalidRateError) else type(tr.error).__name__
        out("run-exception:%s:%s" % (kind, opt["kind"]), "run() raised %r" % tr.error, repr(tr.error), None)
    for w in tr.warnings:
        if "Invalid schedule" in str(w.message):
            out("run-warning:invalid-schedule:%s" % opt["kind"], "run() warned: %s" % w.message, str(w.message), None)
            break
    for sid, ev in tr.evs.items():
        if ev.energy_delivered > ev.requested_energy * (1 + 1e-9) + 1e-9:
            out("over-delivery:%s" % opt["kind"], "session %s received %.9g kWh, requested %.9g" % (sid, ev.energy_delivered, ev.requested_energy), ev.energy_delivered, ev.requested_energy)
    return limited


def execute(scn):
    tr = A.run(scn)
    viol = []
    limited = check(scn, tr, lambda sig, what, o=None, e=None: viol.append((sig, what, o, e)))
    return tr, viol, limited


def run(scn):
    acc = Acc()
    tr, viol, limited = execute(scn)
    acc.evals += 1
    acc.transitions += len(tr.calls)
    for c in tr.calls:
        acc.state((scn["net"], tuple(sorted((a["st"], round(a["remaining_kwh"], 2)) for a in c["active"])), tuple(sorted((c["bounds"] or {}).items())), tuple(scn["sched"].values())))
        acc.outcome(tuple(round(float(v[0]), 1) for v in c["out"].values()))
    if limited:
        acc.nt((scn["net"], tuple(scn["sched"].values()), tuple((s["st"], s["a"], s["d"], s["kind"]) for s in scn["sessions"])))
    for sig, what, o, e in viol:
        acc.violation(sig, what, scn, o, e)
    acc.sample({k: scn[k] for k in ("net", "sessions", "sched")}, cap=2)
    return acc


def replay(scn):
    _, viol, _ = execute(scn)
    return [{"signature": s, "what": w, "observed": o, "expected": e} for s, w, o, e in viol]
