"""C08 - priority allocation: greedy grants the maximum feasible rate in priority order,
round-robin stops only when blocked, uncontrolled gives exactly the station maximum.

Every scheduler invocation reached in a bounded space of simulations is compared with an
independent reference: priority keys recomputed from the true EV state, the maximum
feasible rate from the closed-form root of |c_j + a_j x e^{i phi}| = limit_j + tol_j,
and a 15-line reference round-robin over a cmath feasibility check.
"""
from __future__ import annotations

import cmath
import math
from collections import deque

import numpy as np

from acnportal.algorithms import SortedSchedulingAlgo

from mc.core import Acc
from mc import simspace as S
from mc import algspace as A

ID = "C08"
LEVEL = "model_checking"
TECHNIQUE = "exhaustive enumeration of bounded simulations x {greedy, round-robin} x 5 sort orders x estimator on/off (+ uncontrolled); at every invocation the output is compared with an independent closed-form / reference computation of the priority allocation"
RULE = (
    "networks N2/N5 (distinct voltages, EVSE maxima, mixed-sign three-phase constraints, several binding) x all 1..k-subsets of the session alphabet x algorithms x sort orders; "
    "invocations whose two best priority keys tie (|d|<1e-9) or whose decision lies within 1e-7 A of a constraint boundary are skipped and counted; "
    "states = (occupancy, remaining-demand bucket, estimator bounds) per invocation; non-trivial = invocation with >=2 active sessions in which a constraint limits some session"
)
ASSUMPTIONS = [
    "continuous EVSE: max - eps <= granted <= max, eps = the tolerance the algorithm actually passes to max_feasible_rate (recorded by a harness-side wrapper)",
    "reference feasibility uses the default tolerances 1e-5 / 1e-7 the algorithms hard-code",
    "items marked 'after': the same algorithm object has first served a complete simulation on another network with the same station ids",
    "extra blocks: three simultaneous sessions (every combination of kinds); two run() stages with the limit of the last-added constraint changed under the same name in between (reference uses the limit then in force)",
    "direct block: the public helper max_feasible_rate asked with eps in {0.5, 0.05, 0.01, 1e-3, 1e-4, 1e-6, default} on every lattice of granted rates of N2/N5/N12",
    "uninterrupted charging off (the property's allocation rule is stated for lower bound 0)",
]
CHUNK = 20
EPS_SEEN = []
_orig_mfr = None
_orig_dmfr = None


def worker_init():
    """record the eps the algorithm passes to max_feasible_rate (harness-side wrapper)"""
    global _orig_mfr, _orig_dmfr
    if _orig_mfr is not None:
        return
    _orig_mfr = SortedSchedulingAlgo.__dict__["max_feasible_rate"].__func__
    _orig_dmfr = SortedSchedulingAlgo.__dict__["discrete_max_feasible_rate"].__func__

    def wrapped(station_index, ub, schedule, infrastructure, eps=0.0001, lb=0.0):
        EPS_SEEN.append(eps)
        return _orig_mfr(station_index, ub, schedule, infrastructure, eps=eps, lb=lb)

    SortedSchedulingAlgo.max_feasible_rate = staticmethod(wrapped)


def bounds(tier, seed):
    return {"nets": NETS, "kmax": 3 if tier == "thorough" else 2, "algorithm_object_reused_after_network": REUSE}


NETS = ["N2", "N5", "N7", "N10"]
# networks with the SAME station ids but other EVSE ratings: an algorithm object that served the first is then
# registered with a simulation on the second
REUSE = {"N2": "N5", "N5": "N7", "N7": "N2", "N10": "N5"}


def space(tier, seed):
    items = list(A.scenarios(tier, NETS, unint_values=(False,)))
    extra = [x for x in A.extra_scenarios(tier) if x["net"] == "N16"] + list(A.inc_scenarios(tier)) + list(A.period_scenarios(tier)) + list(A.three_scenarios(tier)) + list(A.edit_scenarios(tier, (False,)))
    seen = set()
    for scn in list(items):
        key = (scn["net"], repr(scn["sessions"]))
        if key not in seen:
            seen.add(key)
            items.append({"net": scn["net"], "sessions": scn["sessions"], "sched": {"kind": "unc"}, "period": 5})
            if len(scn["sessions"]) == 2 or tier == "thorough":
                items.append({"net": scn["net"], "sessions": scn["sessions"], "sched": {"kind": "unc"}, "period": 5, "after": REUSE[scn["net"]]})
                items.append({"net": scn["net"], "sessions": scn["sessions"], "sched": {"kind": "greedy", "sort": "llf", "est": True, "unint": False, "inc": 1}, "period": 5, "after": REUSE[scn["net"]]})
    # the public bisection helper asked directly, with every tolerance of a menu (the greedy algorithm itself passes one)
    for netname in ("N2", "N5", "N12"):
        items.append({"mfr": True, "net": netname, "tier": tier})
    return items + extra


def DEFAULT_EPS():
    """the helper's own default tolerance, as its signature states it"""
    import inspect

    try:
        d = inspect.signature(_orig_mfr).parameters["eps"].default
        return float(d) if isinstance(d, (int, float)) and d > 0 else 1e-4
    except (KeyError, TypeError, ValueError):
        return 1e-4


MFR_EPS = [0.5, 0.05, 0.01, 1e-3, 1e-4, 1e-6, None]  # None: the documented default of the helper


def run_mfr(item):
    """SortedSchedulingAlgo.max_feasible_rate(station, ub, schedule, info, eps) on every lattice of already granted rates:
    the bound itself if it is feasible, else within eps below the closed-form maximum - for EVERY eps asked for"""
    import itertools
    import warnings

    from acnportal.acnsim import Simulator
    from acnportal.acnsim.events import EventQueue
    from acnportal.acnsim.interface import Interface
    from acnportal.algorithms import BaseAlgorithm

    worker_init()
    viol, n, nt, outs = [], 0, set(), set()
    ref = Ref(item["net"])
    with warnings.catch_warnings():
        warnings.simplefilter("ignore")
        net = S.build_network(item["net"], cls=S.MonNet)
        iface = Interface(Simulator(net, BaseAlgorithm(), EventQueue(), S.START, verbose=False))
        info = iface.infrastructure_info()
    ids = list(info.station_ids)
    lattice = (0.0, 6.0, 12.5, 20.0, 32.0) if item.get("tier") == "thorough" else (0.0, 8.0, 20.0, 32.0)
    for i, st in enumerate(ids):
        others = [s_ for s_ in ids if s_ != st]
        for grants in itertools.product(lattice, repeat=len(others)):
            x = dict(zip(others, grants))
            x[st] = 0.0
            ok0, m0 = ref.feasible(x)
            if not ok0 or m0 < 1e-6:
                continue  # the helper is specified for feasible starting schedules
            for ub in (ref.max_rate(st) if ref.max_rate(st) < 1e9 else 64.0, 17.3):
                trial = dict(x)
                trial[st] = ub
                okub, mub = ref.feasible(trial)
                if mub < 1e-6:
                    continue
                xm = ub if okub else ref.xmax(st, x)
                for eps in MFR_EPS:
                    sched = np.array([x[s_] for s_ in ids], dtype=float)
                    before = sched.copy()
                    kw = {} if eps is None else {"eps": eps}
                    eff = DEFAULT_EPS() if eps is None else eps
                    n += 1
                    got = float(_orig_mfr(i, ub, sched, info, **kw))
                    outs.add((item["net"], okub, eps))
                    if not okub:
                        nt.add((item["net"], st, grants, ub))
                    if okub:
                        bad = abs(got - ub) > 1e-9
                    else:
                        bad = not (xm - eff - 1e-9 <= got <= xm + 1e-9)
                    if bad:
                        viol.append(("max_feasible_rate:eps=%s" % eps, "%s: max_feasible_rate(%s, ub=%s, granted %s, eps=%s) = %.9g, the maximum feasible rate is %.9g" % (item["net"], st, ub, x, eps, got, xm), got, xm))
                        break
                    if not np.array_equal(sched, before):
                        viol.append(("max_feasible_rate:schedule-mutated", "max_feasible_rate changed the caller's schedule vector", sched.tolist(), before.tolist()))
                        break
            # the discrete helper: the largest level of the list it is handed that is feasible next to the granted
            # rates, 0 if none is (the greedy algorithm hands it the station's levels between the session's bounds)
            lv = ref.levels(st) or [0.0, 6.0, 12.0, 18.0, 24.0, 30.0]
            for lo, hi in ((0.0, 1e9), (7.0, 1e9), (lv[1], lv[-1] - 1.0), (lv[-1], 1e9)):
                levels = [float(l) for l in lv if lo <= l <= hi]
                if not levels:
                    continue
                want, decided = 0.0, True
                for l in reversed(levels):
                    trial = dict(x)
                    trial[st] = l
                    ok_l, m_l = ref.feasible(trial)
                    if m_l < 1e-6:
                        decided = False
                        break
                    if ok_l:
                        want = l
                        break
                if not decided:
                    continue
                sched = np.array([x[s_] for s_ in ids], dtype=float)
                before = sched.copy()
                n += 1
                got = float(_orig_dmfr(i, list(levels), sched, info))
                outs.add((item["net"], "discrete", want > 0, levels[0] > 0))
                if want < levels[-1]:
                    nt.add((item["net"], st, grants, tuple(levels)))
                if abs(got - want) > 1e-9:
                    viol.append(("discrete_max_feasible_rate:%s" % ("no-level-fits" if want == 0.0 and levels[0] > 0 else "not-the-largest-feasible-level"), "%s: discrete_max_feasible_rate(%s, levels %s, granted %s) = %r, the largest feasible level is %r" % (item["net"], st, levels, x, got, want), got, want))
                    break
                if not np.array_equal(sched, before):
                    viol.append(("discrete_max_feasible_rate:schedule-mutated", "discrete_max_feasible_rate changed the caller's schedule vector", sched.tolist(), before.tolist()))
                    break
            if len(viol) > 5:
                return viol, n, nt, outs
    return viol, n, nt, outs


# ---------------------------------------------------------------------------
# reference model
# ---------------------------------------------------------------------------
class Ref:
    def __init__(self, netname, edit=None):
        spec = S.NETS[netname]
        if edit is not None:  # the limit of the last-added constraint was changed by its owner
            spec = dict(spec, constraints=list(spec["constraints"][:-1]) + [(spec["constraints"][-1][0], spec["constraints"][-1][1], edit)])
        self.spec = spec
        self.st = list(spec["stations"])
        self.ang = {s: math.radians(spec["stations"][s][2]) for s in self.st}
        self.volt = {s: spec["stations"][s][1] for s in self.st}
        self.cons = spec["constraints"]
        self.evse = {s: spec["stations"][s][0] for s in self.st}

    def max_rate(self, st):
        e = self.evse[st]
        return float(e[2]) if e[0] in ("cont", "dead") else float(max(e[1]))

    def levels(self, st):
        e = self.evse[st]
        return None if e[0] == "cont" else sorted(set([0] + list(e[1])))

    def current(self, j, x):
        _, coefs, _ = self.cons[j]
        return sum(a * x.get(s, 0.0) * cmath.exp(1j * self.ang[s]) for s, a in coefs.items())

    def feasible(self, x):
        """-> (feasible, margin in A to the closest decision boundary)"""
        ok, margin = True, float("inf")
        for j, (_, coefs, lim) in enumerate(self.cons):
            r = lim + max(1e-5, 1e-7 * lim)
            m = abs(self.current(j, x))
            if m > r:
                ok = False
            margin = min(margin, abs(m - r))
        return ok, margin

    def xmax(self, st, x):
        """largest x_st >= 0 with every constraint satisfied, others fixed (closed form)"""
        best = float("inf")
        others = dict(x)
        others[st] = 0.0
        u = cmath.exp(1j * self.ang[st])
        for j, (_, coefs, lim) in enumerate(self.cons):
            a = coefs.get(st, 0)
            if a == 0:
                continue
            r = lim + max(1e-5, 1e-7 * lim)
            c = self.current(j, others)
            b = a * (c * u.conjugate()).real
            disc = b * b - a * a * (abs(c) ** 2 - r * r)
            if disc < 0:
                return -1.0
            best = min(best, (-b + math.sqrt(disc)) / (a * a))
        return best


def keys(sort, active, t, ref, period):
    out = {}
    for a in active:
        ap = a["shown_remaining"] * 1000 / ref.volt[a["st"]] * 60 / period
        if sort == "fcfs":
            k = a["arrival"]
        elif sort == "lcfs":
            k = -a["arrival"]
        elif sort == "edf":
            k = a["ed"]
        elif sort == "llf":
            k = (a["ed"] - t) - ap / ref.max_rate(a["st"])
        else:
            k = -(ap / ref.max_rate(a["st"]))
        out[a["sid"]] = k
    return out


def check_call(scn, c, ref, out, stats):
    opt = scn["sched"]
    t, sched = c["t"], {st: float(v[0]) for st, v in c["out"].items()}
    active = c["active"]
    period = scn["period"]
    ctx = "period %d %s/%s est=%s" % (t, opt["kind"], opt.get("sort"), opt.get("est"))
    if opt["kind"] == "unc":
        exp = {a["st"]: [ref.max_rate(a["st"])] for a in active}
        got = {st: [float(x) for x in v] for st, v in c["out"].items()}
        if got != exp:
            out("uncontrolled", "%s: uncontrolled schedule %s, expected exactly the station maximum for active sessions %s" % (ctx, got, exp), got, exp)
        return "ok"
    # ---- priority order from the true state --------------------------------------
    for a in active:
        if abs(a["shown_remaining"] - a["remaining_kwh"]) > 1e-9:
            out("shown-state", "%s: session %s shown remaining %s, true %s" % (ctx, a["sid"], a["shown_remaining"], a["remaining_kwh"]), a["shown_remaining"], a["remaining_kwh"])
            return "bad"
    ks = keys(opt["sort"], active, t, ref, period)
    vals = sorted(ks.values())
    if any(abs(x - y) < 1e-9 for x, y in zip(vals, vals[1:])):
        return "tie"
    order = sorted(active, key=lambda a: ks[a["sid"]])
    ub = {}
    for a in order:
        st = a["st"]
        u = min(ref.max_rate(st), a["remaining_kwh"] * 1000 / ref.volt[st] * 60 / period)
        if opt["est"]:
            b = c["bounds"].get(a["sid"])
            if b is not None:
                u = min(u, b)
        ub[st] = u
        lv = ref.levels(st)
        if lv is not None and u < ref.max_rate(st) - 1e-9 and any(abs(u - l) < 1e-9 for l in lv if l > 0):
            return "boundary"
    x = {st: 0.0 for st in ref.st}
    binding = False
    if opt["kind"] == "greedy":
        eps = max(EPS_SEEN) if EPS_SEEN else 0.01
        for a in order:
            st = a["st"]
            lv = ref.levels(st)
            got = sched[st]
            if lv is None:
                trial = dict(x)
                trial[st] = ub[st]
                ok, margin = ref.feasible(trial)
                if margin < 1e-7:
                    return "boundary"
                if ok:
                    if abs(got - ub[st]) > 1e-9:
                        out("greedy:continuous-not-at-bound:" + opt["sort"], "%s: session %s (priority %d of %d) got %.9g A although its bound %.9g A is feasible given earlier grants %s" % (ctx, a["sid"], order.index(a) + 1, len(order), got, ub[st], x), got, ub[st])
                        return "bad"
                else:
                    binding = True
                    xm = ref.xmax(st, x)
                    if not (xm - eps - 1e-9 <= got <= xm + 1e-9):
                        out("greedy:continuous-not-maximal:" + opt["sort"], "%s: session %s (priority %d of %d) got %.9g A, the maximum feasible rate given earlier grants %s is %.9g A (bisection tolerance %s)" % (ctx, a["sid"], order.index(a) + 1, len(order), got, x, xm, eps), got, xm)
                        return "bad"
            else:
                cand = [l for l in lv if l <= ub[st]]
                exp = 0.0
                for l in reversed(cand):
                    trial = dict(x)
                    trial[st] = float(l)
                    ok, margin = ref.feasible(trial)
                    if margin < 1e-7:
                        return "boundary"
                    if ok:
                        exp = float(l)
                        break
                    binding = True
                if got != exp:
                    out("greedy:finite-not-maximal:" + opt["sort"], "%s: session %s (priority %d of %d) got level %s, largest feasible allowable level given earlier grants %s is %s" % (ctx, a["sid"], order.index(a) + 1, len(order), got, x, exp), got, exp)
                    return "bad"
            x[st] = got
    else:  # round robin reference
        inc = opt.get("inc", 1)
        levels = {}
        for a in order:
            st = a["st"]
            lv = ref.levels(st)
            if lv is None:
                n = int(math.floor(ub[st] / inc + 1e-12))
                if abs(ub[st] / inc - round(ub[st] / inc)) < 1e-9 and round(ub[st] / inc) > 0 and abs(ub[st] - ref.max_rate(st)) > 1e-9:
                    return "boundary"
                levels[st] = [k * inc for k in range(n + 1)]
            else:
                levels[st] = [float(l) for l in lv if l <= ub[st]]
        idx = {a["st"]: 0 for a in order}
        q = deque(a["st"] for a in order)
        while q:
            st = q.popleft()
            if idx[st] < len(levels[st]) - 1:
                trial = dict(x)
                trial[st] = levels[st][idx[st] + 1]
                ok, margin = ref.feasible(trial)
                if margin < 1e-7:
                    return "boundary"
                if ok:
                    idx[st] += 1
                    x[st] = trial[st]
                    q.append(st)
                else:
                    binding = True
        for a in order:
            st = a["st"]
            if abs(sched[st] - x[st]) > 1e-9:
                out("round-robin:differs-from-reference:" + opt["sort"], "%s: round-robin gave %s, raising one level at a time in priority order %s until blocked gives %s" % (ctx, {s: sched[s] for s in ub}, [a["sid"] for a in order], {s: x[s] for s in ub}), {s: sched[s] for s in ub}, {s: x[s] for s in ub})
                return "bad"
    for st in ref.st:
        if st not in ub and sched[st] != 0:
            out("inactive-station-nonzero", "%s: station %s has no active session but rate %s" % (ctx, st, sched[st]), sched[st], 0)
    stats["binding"] = stats.get("binding", False) or (binding and len(order) >= 2)
    return "ok"


def execute(scn):
    worker_init()
    if scn.get("after"):
        # the algorithm object first serves a complete simulation of the same sessions on ANOTHER network
        algo = S.make_algorithm(scn["sched"])
        first = A.run(dict(scn, net=scn["after"]), algo=algo)
        tr = A.run(scn, algo=algo)
    else:
        tr = A.run(scn)
    viol = []
    ref = Ref(scn["net"])
    out = lambda sig, what, o=None, e=None: viol.append((sig, what, o, e))
    res = []
    stats = {}
    if tr.error is not None:
        out("exception:%s" % type(tr.error).__name__, "run() raised %r" % tr.error, repr(tr.error), None)
    ref_after = Ref(scn["net"], edit=scn["edit"]) if scn.get("edit") is not None else ref
    for c in tr.calls:
        res.append(check_call(scn, c, ref_after if (scn.get("edit") is not None and c["t"] >= scn["two_phase"]) else ref, out, stats))
    return tr, viol, res, stats


def run(scn):
    acc = Acc()
    if scn.get("mfr"):
        viol, n, nt, outs = run_mfr(scn)
        acc.evals += n
        acc.transitions += n
        for o in outs:
            acc.outcome(o)
        for x in nt:
            acc.nt(x)
        for sig, what, o, e in viol:
            acc.violation(sig, what, scn, o, e)
        acc.sample({"direct max_feasible_rate calls on": scn["net"], "eps": MFR_EPS}, cap=1)
        return acc
    tr, viol, res, stats = execute(scn)
    acc.evals += 1
    acc.transitions += len(tr.calls)
    for c, r in zip(tr.calls, res):
        acc.state((scn["net"], tuple(sorted((a["st"], round(a["remaining_kwh"], 2)) for a in c["active"])), tuple(sorted((c["bounds"] or {}).items())), tuple(scn["sched"].values())))
        acc.outcome((r, tuple(round(float(v[0]), 1) for v in c["out"].values())))
        acc.count("calls_" + r)
        if r in ("tie", "boundary"):
            acc.skipped += 1
    if stats.get("binding"):
        acc.nt((scn["net"], tuple(scn["sched"].values()), tuple((s["st"], s["a"], s["d"], s["kind"]) for s in scn["sessions"])))
    for sig, what, o, e in viol:
        acc.violation(sig, what, scn, o, e)
    acc.sample({k: scn[k] for k in ("net", "sessions", "sched")}, cap=2)
    return acc


def finalize(total, tier, seed):
    total.counters["bisection_eps_recorded"] = "see worker wrapper (0.01 at the pinned commit)"


def replay(scn):
    if scn.get("mfr"):
        return [{"signature": s, "what": w, "observed": o, "expected": e} for s, w, o, e in run_mfr(scn)[0]]
    _, viol, _, _ = execute(scn)
    return [{"signature": s, "what": w, "observed": o, "expected": e} for s, w, o, e in viol]
