"""C10 - results are deterministic and independent of incidental ordering.

Pairwise-differential exhaustive enumeration: for every base scenario of a bounded
space, the real Simulator is run on EVERY variant of a declared permutation group
(station registration orders x constraint insertion orders, session listing orders,
time shifts, and an all-at-once combination) and on an identical rebuild; per-station
rows (matched by station id) of pilots and rates, and per-session energies, must be
identical to the base run's (shifted by k columns for a shift by k).
A slice is re-executed in child processes under different PYTHONHASHSEEDs and the
digests of all outputs are compared.
"""
from __future__ import annotations

import hashlib
import itertools
import json
import os
import subprocess
import sys

import numpy as np

from mc.core import Acc
from mc import simspace as S

ID = "C10"
LEVEL = "model_checking"
TECHNIQUE = (
    "exhaustive enumeration of permutation variants (all station registration orders x constraint orders, all session listing orders, time shifts) "
    "of every bounded base scenario on the real Simulator; pairwise differential oracle on per-station/per-session outputs; hash-seed differential in child processes"
)
RULE = (
    "base scenarios = session k-subsets with pairwise distinct priority keys x network x scheduler; variants = 3! station orders x constraint orders "
    "(quick: identity/reverse/2 rotations, thorough: all), k! session orders, shifts {1,3}, one all-at-once variant, identical rebuild; "
    "state = canonical simulator state per period of the base run; non-trivial = base scenario with >=2 sessions in which some constraint-limited or level-limited pilot occurs (pilot < EVSE max while charging)"
)
ASSUMPTIONS = [
    "the hash-seed differential also runs twelve scenarios with exactly tied priority keys: the order among ties is open, its independence of the interpreter process is demanded",
    "five block: five sessions with distinct arrivals on an unconstrained six-station network, all 120 listing orders; estimator block: a default-constructed rate estimator after another simulation of the same process with the same session ids vs one whose bound table was explicitly emptied",
    "reuse block: back-to-back reuse of a station with a third event in the same period, all session listing orders",
    "N11: duplicated constraint rows with different limits and a pod too tight for all minimum rates (uninterrupted charging)",
    "sorted schedulers are exercised on the all-finite-rate networks only (property: 'finite-rate sorted schedulers'), with pairwise distinct arrivals/departures/energies so no decision hinges on a tie",
    "time-shift comparison only for base scenarios whose first arrival is at period 0 and only for columns >= k (before the first event the max_recompute cadence is anchored at period 0 by design)",
    "scripted schedulers are functions of the column index relative to t0 (shifted with the scenario), i.e. time-shift-invariant programs",
    "per-station rows and per-session energies are compared exactly (every EV's arithmetic is independent of the other stations); peak (a float sum over stations) is compared in the identical-rebuild variant only",
]
CHUNK = 4

SCHEDS = {
    "altcol1": ({"kind": "script", "prog": {"rule": "altcol", "len": 1, "skew": True}}, 1),
    "altcol3": ({"kind": "script", "prog": {"rule": "altcol", "len": 3, "skew": True}}, 2),
    "actmax": ({"kind": "script", "prog": {"rule": "active-max", "len": 2}}, None),
    "unc": ({"kind": "unc"}, None),
    "unc-k1": ({"kind": "unc"}, 1),
    "fcfs": ({"kind": "greedy", "sort": "fcfs"}, 1),
    "edf-rr": ({"kind": "rr", "sort": "edf", "inc": 1}, 1),
    "llf": ({"kind": "greedy", "sort": "llf"}, None),
    "lrpt-rr": ({"kind": "rr", "sort": "lrpt", "inc": 1}, 2),
    "fcfs-est": ({"kind": "greedy", "sort": "fcfs", "est": True}, 1),
    "fcfs-unint": ({"kind": "greedy", "sort": "fcfs", "unint": True}, 1),
    "edf-rr-unint": ({"kind": "rr", "sort": "edf", "inc": 1, "unint": True}, 1),
}
NET_SCHEDS = {
    "N2": ("altcol1", "altcol3", "actmax", "unc", "unc-k1"),
    "N3": ("altcol1", "altcol3"),
    "N6": ("fcfs", "edf-rr", "llf", "lrpt-rr", "unc", "fcfs-est"),
    "N8": ("unc-k1",),
    "N11": ("fcfs-unint", "edf-rr-unint", "llf"),
}


def bounds(tier, seed):
    return {
        "tier": tier,
        "kmax": 2 if tier == "quick" else 3,
        "station_orders": 6,
        "constraint_orders": "4 per station order" if tier == "quick" else "4 per station order + all 24 for the template's station order",
        "shifts": [1, 3],
        "hashseed_slice": 200 if tier == "quick" else 1500,
    }


def sess(st, a, stay, kind, i):
    s = {"st": st, "a": a, "d": a + stay, "kind": kind}
    if kind == "big":
        s.update(batt="ideal", e=20.0 + 1.3 * i, cap=100.0, init=0.0, pmax=7.0)
    elif kind == "small":
        s.update(batt="ideal", e=0.61 + 0.013 * i, cap=3.0, init=1.0, pmax=7.0)
    else:
        s.update(batt="l2c", e=1.7 + 0.07 * i, cap=10.0, init=7.8, pmax=6.6)
    return s


def base_scenarios(tier):
    thorough = tier == "thorough"
    for netname in ("N6", "N2", "N3", "N11"):
        stations = list(S.NETS[netname]["stations"])
        pool = [sess(st, a, sy, kd, i) for i, (st, a, sy, kd) in enumerate(itertools.product(stations, (0, 1, 2), (2, 3) if not thorough else (1, 2, 4), ("big", "small", "l2c")))]
        pool3 = [sess(st, a, sy, kd, i) for i, (st, a, sy, kd) in enumerate(itertools.product(stations, (0, 1, 2), (2, 3), ("big", "small")))]
        subsets = list(S.session_subsets(pool, 2, 2)) + (list(S.session_subsets(pool3, 3, 3)) if thorough else [])
        for ss in subsets:
            # pairwise distinct priority keys: arrivals and departures all different
            if len({s["a"] for s in ss}) < len(ss) or len({s["d"] for s in ss}) < len(ss):
                continue
            if len(ss) == 3 and len({s["st"] for s in ss}) < 3 and netname not in ("N6", "N11"):
                continue
            for j, s in enumerate(ss):
                s["ed"] = s["d"] + (2, 0, 1)[j % 3]  # distinct estimated departures, same order as departures? no: decoupled
            if len({s["ed"] for s in ss}) < len(ss):
                continue
            for sk in NET_SCHEDS[netname]:
                if len(ss) == 3 and sk in ("altcol1", "unc-k1"):
                    continue
                yield {"net": netname, "sessions": ss, "sk": sk}


def reuse_scenarios():
    """a station re-used back to back with a third event in the same period: three events are due at once, and the
    session listing order decides how they lie in the event heap"""
    for st in ("PS-A", "PS-B", "PS-C"):
        for other in ("PS-A", "PS-B", "PS-C"):
            if other == st:
                continue
            for third in ((2, 2), (0, 2), (2, 1)):  # (arrival, stay) of the third session: arrives or leaves in period 2
                ss = [dict(sess(st, 0, 2, "big", 0), sid="ev0"), dict(sess(st, 2, 2, "small", 1), sid="ev1"), dict(sess(other, third[0], third[1], "big", 2), sid="ev2")]
                for j, s_ in enumerate(ss):
                    s_["ed"] = s_["d"] + (2, 0, 1)[j]
                for sk in ("unc-k1", "altcol1"):
                    yield {"net": "N2", "sessions": ss, "sk": sk}


def five_scenarios():
    """five sessions on five of six unconstrained stations, pairwise distinct arrivals: the plug-in events are handed
    over in EVERY listing order (5! = 120); only the listing order varies"""
    for stays in ((2, 2, 2, 2, 2), (5, 1, 3, 1, 2)):
        ss = [dict(sess("PS-%d" % (i + 1), a, stays[i], "big" if i % 2 == 0 else "small", i), sid="ev%d" % i) for i, a in enumerate((0, 1, 2, 3, 4))]
        for j, s_ in enumerate(ss):
            s_["ed"] = s_["d"] + (2, 0, 1)[j % 3]
        yield {"net": "N8", "sessions": ss, "sk": "unc-k1", "only_kinds": ["rebuild", "session-order"]}


def estimator_scenarios():
    """a default-constructed rate estimator starts without any knowledge of earlier simulations: the same scenario run
    (1) right after ANOTHER simulation of the same process that used the same session ids on slow-charging vehicles and
    (2) with an estimator whose table of bounds was explicitly replaced by an empty one - must give identical outputs"""
    for sort in ("fcfs", "llf"):
        for kind in ("greedy", "rr"):
            for kinds2 in (("big", "big"), ("big", "small")):
                ss = [dict(sess("PS-A", 0, 4, kinds2[0], 0), sid="ev0", ed=6), dict(sess("PS-C", 1, 4, kinds2[1], 1), sid="ev1", ed=9)]
                yield {"net": "N6", "sessions": ss, "sk": "fcfs-est", "estfresh": {"kind": kind, "sort": sort, "est": True, "inc": 1}}


def space(tier, seed):
    return (
        [dict(b, tier=tier) for b in base_scenarios(tier)]
        + [dict(b, tier=tier) for b in reuse_scenarios()]
        + [dict(b, tier=tier) for b in five_scenarios()]
        + [dict(b, tier=tier) for b in estimator_scenarios()]
    )


def corders(n, tier):
    idx = list(range(n))
    if tier == "thorough":
        return [list(p) for p in itertools.permutations(idx)]
    outs = [idx, idx[::-1], idx[1:] + idx[:1], idx[2:] + idx[:2]]
    uniq = []
    for o in outs:
        if o not in uniq:
            uniq.append(o)
    return uniq


def variant_scn(base, order=None, corder=None, sorder=None, shift=0, unnamed=False):
    sched, k = SCHEDS[base["sk"]]
    sched = json.loads(json.dumps(sched))
    if shift and sched["kind"] == "script":
        sched["prog"]["t0"] = shift
    ss = [dict(s, a=s["a"] + shift, d=s["d"] + shift, ed=s["ed"] + shift) for s in base["sessions"]]
    scn = {"net": base["net"], "sessions": ss, "sched": sched, "k": k, "period": 5}
    if order:
        scn["order"] = order
    if corder:
        scn["corder"] = corder
    if sorder:
        scn["sorder"] = sorder
    if unnamed:
        scn["unnamed"] = True
    return scn


def outputs(tr):
    sim = tr.sim
    ids = sim.network.station_ids
    return {
        "pilots": {sid: np.array(sim.pilot_signals[i], dtype=float) for i, sid in enumerate(ids)},
        "rates": {sid: np.array(sim.charging_rates[i], dtype=float) for i, sid in enumerate(ids)},
        "energy": {k: float(v.energy_delivered) for k, v in sim.ev_history.items()},
        "events": [(e[0], e[1], e[2]) for e in S.events_key(sim)],
        "iteration": sim.iteration,
        "peak": float(sim.peak),
        "error": repr(tr.error) if tr.error is not None else None,
    }


def row_eq(a, b, shift=0):
    """a (base) vs b (variant): b[shift+j] == a[j]; zero padding either way"""
    n = max(len(a), len(b) - shift)
    A = np.zeros(n)
    B = np.zeros(n)
    A[: len(a)] = a
    bb = b[shift:]
    B[: len(bb)] = bb
    return bool(np.array_equal(A, B))


def variants(base, tier):
    net = S.NETS[base["net"]]
    stations = list(net["stations"])
    ncons = len(net["constraints"])
    k = len(base["sessions"])
    out = [("rebuild", {})]
    for order in itertools.permutations(stations):
        # every station order x a small set of constraint orders; thorough: the registration order of
        # the template additionally meets ALL constraint orders
        cos = corders(ncons, "thorough" if (tier == "thorough" and list(order) == stations) else "quick")
        for co in cos:
            if list(order) == stations and co == list(range(ncons)):
                continue
            out.append(("net-order", {"order": list(order), "corder": co}))
    # constraints without names (the network numbers them by position) in two insertion orders, run in the
    # same process right after each other
    out.append(("unnamed-constraints", {"unnamed": True}))
    out.append(("unnamed-constraints", {"unnamed": True, "corder": list(range(ncons))[::-1]}))
    out.append(("unnamed-constraints", {"unnamed": True, "corder": list(range(1, ncons)) + [0], "order": stations[1:] + stations[:1]}))
    for so in itertools.permutations(range(k)):
        if list(so) != list(range(k)):
            out.append(("session-order", {"sorder": list(so)}))
    if min(s["a"] for s in base["sessions"]) == 0:
        for sh in (1, 3):
            out.append(("shift", {"shift": sh}))
        out.append(("all", {"order": stations[::-1], "corder": list(range(ncons))[::-1], "sorder": list(range(k))[::-1], "shift": 2}))
    else:
        out.append(("all", {"order": stations[::-1], "corder": list(range(ncons))[::-1], "sorder": list(range(k))[::-1]}))
    return out


def compare(kind, var, base_out, out, report):
    sh = var.get("shift", 0)
    if out["error"] != base_out["error"]:
        report("%s:error-differs" % kind, "variant %s: run() error %s vs %s" % (var, out["error"], base_out["error"]), out["error"], base_out["error"])
        return
    for sid in base_out["pilots"]:
        if sid not in out["pilots"]:
            report("%s:station-missing" % kind, "station %s missing in variant" % sid, None, None)
            return
        if not row_eq(base_out["pilots"][sid], out["pilots"][sid], sh):
            report("%s:pilots-differ" % kind, "variant %s: pilots of %s differ from the base run" % (var, sid), out["pilots"][sid].tolist(), base_out["pilots"][sid].tolist())
            return
        if not row_eq(base_out["rates"][sid], out["rates"][sid], sh):
            report("%s:rates-differ" % kind, "variant %s: charging rates of %s differ from the base run" % (var, sid), out["rates"][sid].tolist(), base_out["rates"][sid].tolist())
            return
        if sh and np.any(out["rates"][sid][:sh] != 0):
            report("%s:rates-before-shift" % kind, "non-zero rate before the first (shifted) arrival", out["rates"][sid].tolist(), None)
            return
    if out["energy"] != base_out["energy"]:
        report("%s:energy-differs" % kind, "variant %s: delivered energies differ" % (var,), out["energy"], base_out["energy"])
    if out["iteration"] != base_out["iteration"] + sh:
        report("%s:iteration-differs" % kind, "variant %s: final iteration" % (var,), out["iteration"], base_out["iteration"] + sh)
    ev_b = sorted((a, t + sh, s) for a, t, s in base_out["events"])
    if sorted(out["events"]) != ev_b:
        report("%s:events-differ" % kind, "variant %s: event multiset differs" % (var,), out["events"], ev_b)
    if kind == "rebuild":
        if out["peak"] != base_out["peak"] or out["events"] != base_out["events"]:
            report("rebuild:not-deterministic", "identical rebuild gives different peak / event order", [out["peak"], out["events"]], [base_out["peak"], base_out["events"]])


def execute(base, only=None):
    tier = base.get("tier", "quick")
    viol = []
    tr0 = S.run_sim(variant_scn(base))
    b = outputs(tr0)
    info = {"runs": 1, "periods": len(tr0.periods), "tr0": tr0, "kinds": []}
    if isinstance(tr0.error, S.Watchdog):
        viol.append(("base:watchdog", str(tr0.error), None, None, None))
        return viol, info
    if base.get("estfresh"):
        return execute_estfresh(base)
    todo = variants(base, tier) if only is None else [tuple(only)]
    if base.get("only_kinds") and only is None:
        todo = [(k_, v_) for k_, v_ in todo if k_ in base["only_kinds"]]
    for kind, var in todo:
        tr = S.run_sim(variant_scn(base, **var))
        o = outputs(tr)
        n0 = len(viol)
        compare(kind, var, b, o, lambda s, w, ob=None, ex=None: viol.append((s, w, ob, ex, [kind, var])))
        info["runs"] += 1
        info["periods"] += len(tr.periods)
        info["kinds"].append((kind, len(viol) == n0))
    return viol, info


def execute_estfresh(base):
    spec = base["estfresh"]
    viol = []
    # (0) the predecessor: same session ids, vehicles whose batteries take far less than the pilot (the bounds come down)
    pre = [dict(s_, batt="ideal", e=30.0, cap=80.0, init=0.0, pmax=2.2) for s_ in base["sessions"]]
    S.run_sim({"net": base["net"], "sessions": pre, "sched": spec, "k": 1, "period": 5})
    scn = {"net": base["net"], "sessions": base["sessions"], "sched": spec, "k": 1, "period": 5}
    tr1 = S.run_sim(scn)
    algo = S.make_algorithm(spec)
    algo.max_rate_estimator.upper_bounds = {}  # what a newly constructed estimator holds
    tr2 = S.run_sim(scn, algo=algo)
    compare("fresh-estimator", {"after": "another simulation with the same session ids"}, outputs(tr2), outputs(tr1), lambda s_, w, ob=None, ex=None: viol.append((s_, w, ob, ex, None)))
    info = {"runs": 3, "periods": len(tr1.periods) + len(tr2.periods), "tr0": tr2, "kinds": [("fresh-estimator", not viol)]}
    return viol, info


def limited(tr):
    """some pilot strictly between 0 and the EVSE maximum while an EV was charging = a constraint or level decision was made"""
    sim = tr.sim
    mx = sim.network.max_pilot_signals
    p = sim.pilot_signals
    r = sim.charging_rates
    w = min(p.shape[1], r.shape[1])
    return bool(np.any((p[:, :w] > 0) & (p[:, :w] < mx[:, None]) & (r[:, :w] > 0)))


def run(base):
    acc = Acc()
    viol, info = execute(base)
    acc.evals += info["runs"]
    acc.transitions += info["periods"]
    tr0 = info["tr0"]
    for p in tr0.periods:
        acc.state((base["net"], base["sk"], tuple(sorted(p["occ"].items())), tuple(sorted((k, round(v, 9)) for k, v in p["pilot"].items()))))
    for kd in info["kinds"]:
        acc.outcome(kd)
    acc.outcome(("base", tr0.sim.iteration, round(float(tr0.sim.peak), 3)))
    if tr0.error is None and limited(tr0):
        acc.nt((base["net"], base["sk"], tuple((s["st"], s["a"], s["d"], s["kind"]) for s in base["sessions"])))
    for sig, what, o, e, var in viol:
        acc.violation(sig, what, dict(base, variant=var), o, e)
    acc.sample({"net": base["net"], "sk": base["sk"] if not base.get("estfresh") else base["estfresh"], "sessions": [(s["st"], s["a"], s["d"], s["kind"]) for s in base["sessions"]], "variants": info["runs"] - 1}, cap=2)
    return acc


def replay(scn):
    if scn.get("hashseed"):
        return hashseed_check(scn["tier"], scn["n"])
    base = {k: v for k, v in scn.items() if k != "variant"}
    viol, _ = execute(base, only=scn.get("variant"))
    if not viol:
        # the difference may need what an earlier variant of the same base left behind in the process
        # (module-level state in the library): re-execute the item's whole variant sequence
        viol, _ = execute(base)
    return [{"signature": v[0], "what": v[1], "observed": v[2], "expected": v[3]} for v in viol]


# ---- hash-seed differential --------------------------------------------------
def digest(tier, n):
    h = hashlib.sha256()
    for i, base in enumerate(list(tie_scenarios()) + space(tier, 0)):
        if i >= n + 12:
            break
        for var in ({}, {"order": list(S.NETS[base["net"]]["stations"])[::-1]}):
            tr = S.run_sim(variant_scn(base, **var))
            o = outputs(tr)
            h.update(repr((sorted((k, v.tolist()) for k, v in o["pilots"].items()), sorted((k, v.tolist()) for k, v in o["rates"].items()), sorted(o["energy"].items()), o["events"], o["iteration"], o["peak"], o["error"])).encode())
    return h.hexdigest()


def tie_scenarios():
    """sessions that tie EXACTLY in every priority key (same arrival, departure, request) on the all-finite network, whose
    constraints bind: which of them is served first is open, but equal inputs must give equal outputs in every interpreter
    process (a tie broken by anything that depends on the process - string hashes, object addresses - is not deterministic)"""
    for sk in ("fcfs", "edf-rr", "llf", "lrpt-rr"):
        for sts in (("PS-A", "PS-B", "PS-C"), ("PS-C", "PS-A"), ("PS-B", "PS-C")):
            ss = [dict(sess(st, 0, 4, "big", 0), sid="sess-%s-%d" % (st[-1], j)) for j, st in enumerate(sts)]
            for s_ in ss:
                s_["ed"] = s_["d"]
            yield {"net": "N6", "sessions": ss, "sk": sk}


def hashseed_check(tier, n):
    outs = {}
    for hs in ("0", "1", "4242"):
        env = dict(os.environ, PYTHONHASHSEED=hs)
        r = subprocess.run([sys.executable, "-W", "ignore", "-m", "mc.props.c10", tier, str(n)], capture_output=True, text=True, env=env, cwd=os.path.dirname(os.path.dirname(os.path.dirname(os.path.abspath(__file__)))))
        outs[hs] = r.stdout.strip().splitlines()[-1] if r.returncode == 0 and r.stdout.strip() else "child failed: " + r.stderr[-300:]
    if len(set(outs.values())) != 1:
        return [{"signature": "hashseed:outputs-differ", "what": "outputs of the first %d base scenarios differ between PYTHONHASHSEED values" % n, "observed": outs, "expected": "identical digests"}]
    return []


def finalize(total, tier, seed):
    n = bounds(tier, seed)["hashseed_slice"]
    for v in hashseed_check(tier, n):
        total.violation(v["signature"], v["what"], {"hashseed": True, "tier": tier, "n": n}, v["observed"], v["expected"])
    total.count("hashseed_children", 3)
    total.count("hashseed_slice_scenarios", n)


if __name__ == "__main__":
    print(digest(sys.argv[1], int(sys.argv[2])))
