"""C16 - predefined site networks never admit more power than transformer ratings.

Exhaustive lattice on a quotient: EVSEs with the same (line pair, panel) are shown to be
interchangeable for the network (identical constraint columns and phase angle - checked on
the real network, not assumed), so schedules are enumerated by per-class sums: every point
of a per-class level lattice, realised on the real network, plus - along every lattice
direction - the boundary of the feasible set located with the network's own is_feasible
(bisection). Every schedule the network accepts is evaluated against an independent model
of the site (a hand-written topology table + cmath): power through each transformer,
pod and sub-panel line currents.
"""
from __future__ import annotations

import cmath
import itertools
import math
import warnings

import numpy as np

from acnportal.acnsim.network import sites

from mc.core import Acc

ID = "C16"
LEVEL = "exploration"
TECHNIQUE = (
    "exhaustive enumeration of per-class current lattices (quotient by interchangeable EVSEs, interchangeability checked on the real network) and of the feasibility-boundary point along every "
    "lattice direction (bisection with the network's own is_feasible) on the real site networks; independent topology table + phasor arithmetic as oracle"
)
RULE = (
    "site x {basic, real EVSEs} x transformer capacities {1/2, 1, 2} x default; per-class fractions on a level lattice (quick 3 levels, thorough 5) scaled by class capacity (32 A x size), at lambda in {1/4,1/2,3/4,1} and at the feasibility boundary; "
    "non-trivial = accepted schedule loading >= 2 line pairs whose transformer power is within 2% of the rating or whose pod/sub-panel current is within 2% of its rating"
)
ASSUMPTIONS = [
    "power through a transformer = 120*sqrt(3) V x sum of EVSE currents behind it (unity power factor, V_LL the exact partner of 120 V L-N; with a literal 208 V the balanced boundary sits 0.074% above the rating by rounding of the nominal alone)",
    "ratings: Caltech pods 80 A; JPL sub-panels 100 A, floor panels 225 A per line; transformers Caltech 150 kW, JPL 45/150 kW, Office 50 kW (x capacity factor)",
    "an accepted schedule may exceed a limit by the network's own tolerance max(1e-5 A, 1e-7 x limit); the oracle allows 2e-7 relative + 2e-5 A",
    "variants: each site also after a JSON round trip, after having been asked with other tolerances, and (Caltech) through the deprecated CaltechACN entry point",
    "the guarantee is for the enumerated lattice and boundary points; linearity of power and convexity of the feasible set are why boundary points along directions are the extremal witnesses",
]
CHUNK = 1

ANG = {"ab": 30.0, "bc": -90.0, "ca": 150.0}
VLL = 120.0 * math.sqrt(3.0)


def ca(ns):
    return ["CA-%s" % n for n in ns]


# ---- independent topology tables: class -> (line pair, transformer, panels, station ids) -----
CALTECH = {
    "transformers": {"T": 150.0},
    "panel_ratings": {"CC Pod": 80.0, "AV Pod": 80.0},
    "classes": {
        "ab-main": ("ab", "T", [], ca([308, 508, 303, 513, 310, 506, 316, 500, 318, 498])),
        "ab-av": ("ab", "T", ["AV Pod"], ca([324, 325, 326, 327, 489, 490, 491, 492])),
        "ab-cc": ("ab", "T", ["CC Pod"], ca([322, 493, 496, 320, 495, 321, 323, 494])),
        "bc": ("bc", "T", [], ca([304, 512, 305, 511, 313, 503, 311, 505, 317, 499, 148, 149, 212, 213])),
        "ca": ("ca", "T", [], ca([307, 509, 309, 507, 306, 510, 315, 501, 319, 497, 312, 504, 314, 502])),
    },
    "pods_same_phase": True,
}
JPL = {
    "transformers": {"T1": 45.0, "T34": 150.0},
    "panel_ratings": {"SP1": 100.0, "SP2": 100.0, "P3": 225.0, "P4": 225.0},
    "classes": {
        "sp1-ab": ("ab", "T1", ["SP1"], ["AG-1F12", "AG-1F14"]),
        "sp1-ca": ("ca", "T1", ["SP1"], ["AG-1F11", "AG-1F13"]),
        "sp2-ab": ("ab", "T1", ["SP2"], ["AG-1F03", "AG-1F06"]),
        "sp2-bc": ("bc", "T1", ["SP2"], ["AG-1F01", "AG-1F04"]),
        "sp2-ca": ("ca", "T1", ["SP2"], ["AG-1F02", "AG-1F05"]),
        "m1-ab": ("ab", "T1", [], ["AG-1F10"]),
        "m1-bc": ("bc", "T1", [], ["AG-1F07", "AG-1F09"]),
        "m1-ca": ("ca", "T1", [], ["AG-1F08"]),
        "p3-ab": ("ab", "T34", ["P3"], ["AG-3F16", "AG-3F17", "AG-3F20", "AG-3F23", "AG-3F25", "AG-3F26", "AG-3F29", "AG-3F33"]),
        "p3-bc": ("bc", "T34", ["P3"], ["AG-3F18", "AG-3F21", "AG-3F27", "AG-3F30", "AG-3F31"]),
        "p3-ca": ("ca", "T34", ["P3"], ["AG-3F15", "AG-3F19", "AG-3F22", "AG-3F24", "AG-3F28", "AG-3F32"]),
        "p4-ab": ("ab", "T34", ["P4"], ["AG-4F35", "AG-4F36", "AG-4F39", "AG-4F42", "AG-4F44", "AG-4F45", "AG-4F48", "AG-4F52"]),
        "p4-bc": ("bc", "T34", ["P4"], ["AG-4F37", "AG-4F40", "AG-4F46", "AG-4F49", "AG-4F50"]),
        "p4-ca": ("ca", "T34", ["P4"], ["AG-4F34", "AG-4F38", "AG-4F41", "AG-4F43", "AG-4F47", "AG-4F51"]),
    },
    "pods_same_phase": False,
}
OFFICE = {
    "transformers": {"T": 50.0},
    "panel_ratings": {},
    "classes": {"ab": ("ab", "T", [], ["01", "04", "07"]), "bc": ("bc", "T", [], ["02", "05", "08"]), "ca": ("ca", "T", [], ["03", "06"])},
    "pods_same_phase": True,
}
SITES = {"caltech": CALTECH, "jpl": JPL, "office": OFFICE}


def build_variant(site, basic, factor, voltage=208, variant=None):
    """variant: None | "reload" (the network went through to_json/from_json) | "asked-before" (the same object was
    asked with other tolerances before) | "wrapper" (built through the deprecated CaltechACN entry point)"""
    import contextlib, io

    if variant == "wrapper":
        with warnings.catch_warnings(), contextlib.redirect_stdout(io.StringIO()):
            warnings.simplefilter("ignore")
            return sites.CaltechACN(basic_evse=basic, transformer_cap=150 * factor, voltage=voltage)
    net = build(site, basic, factor, voltage)
    if variant == "reload":
        with warnings.catch_warnings():
            warnings.simplefilter("ignore")
            net = type(net).from_json(net.to_json())
    elif variant == "asked-before":
        x = np.full((len(net.station_ids), 1), 32.0)
        net.is_feasible(x, relative_tolerance=0.2)
        net.is_feasible(x * 0.5, violation_tolerance=30.0)
        net.is_feasible(x, linear=True, violation_tolerance=30.0, relative_tolerance=0.2)
    return net


def build(site, basic, factor, voltage=208):
    # `voltage` is the EVSE voltage argument of the site factories; their docstrings say it "does not affect the
    # current rating of the transformer, which is based on nominal voltages in the network"
    with warnings.catch_warnings():
        warnings.simplefilter("ignore")
        if site == "caltech":
            return sites.caltech_acn(basic_evse=basic, transformer_cap=150 * factor, voltage=voltage)
        if site == "jpl":
            return sites.jpl_acn(basic_evse=basic, first_transformer_cap=45 * factor, third_fourth_transformer_cap=150 * factor, voltage=voltage)
        if site == "office":
            return sites.office001_acn(basic_evse=basic, transformer_cap=50 * factor, voltage=voltage)
    raise ValueError(site)


def bounds(tier, seed):
    return {"levels": [0, 0.5, 1] if tier == "quick" else [0, 0.25, 0.5, 0.75, 1], "lambdas": [0.25, 0.5, 0.75, 1.0], "bisection_steps": 40, "factors": [0, 0.3, 0.5, 1, 2], "evse_types": ["basic", "real"], "evse_voltage_argument": [208, 200, 240, 190]}


def space(tier, seed):
    items = []
    for site in SITES:
        # capacity factors: nominal, half, double - and 0.3 (a transformer so small that, seen from the transformer alone, the
        # pod / sub-panel ratings might look implied; they are not: a pod sits on ONE line pair)
        for basic, f, volt in [(b, f, 208) for b in (True, False) for f in (1, 0.5, 2)] + [(True, 1, 200), (False, 1, 240), (True, 0.3, 208), (True, 0.5, 190)]:
            if True:
                spec = SITES[site]
                trs = sorted(spec["transformers"])
                for tr in trs + (["joint"] if len(trs) > 1 else []):
                    nact = len(spec["classes"]) if tr == "joint" else sum(1 for c in spec["classes"].values() if c[1] == tr)
                    nch = 1 if nact <= 3 else (4 if nact <= 6 else 16)
                    for ch in range(nch):
                        items.append({"site": site, "basic": basic, "factor": f, "tr": tr, "tier": tier, "chunk": [ch, nch], "voltage": volt})
    # the same sites reached differently: re-loaded from JSON, asked with other tolerances before, deprecated entry point
    for site in SITES:
        spec = SITES[site]
        for variant, basic, f in [("reload", False, 1), ("reload", True, 0.5), ("asked-before", True, 1), ("asked-before", False, 2)] + ([("wrapper", True, 0.5), ("wrapper", False, 0.75)] if site == "caltech" else []):
            for tr in sorted(spec["transformers"]):
                nact = sum(1 for c in spec["classes"].values() if c[1] == tr)
                nch = 1 if nact <= 3 else (4 if nact <= 6 else 16)
                for ch in range(nch):
                    items.append({"site": site, "basic": basic, "factor": f, "tr": tr, "tier": tier, "chunk": [ch, nch], "voltage": 208, "variant": variant})
    # a transformer whose capacity argument is exactly 0 (switched off): nothing but the all-zero schedule is admissible
    for site in SITES:
        for tr in sorted(SITES[site]["transformers"]):
            nact = sum(1 for c in SITES[site]["classes"].values() if c[1] == tr)
            nch = 1 if nact <= 3 else (4 if nact <= 6 else 16)
            for ch in range(nch if tier == "thorough" else 1):  # quick: the first share of the directions (with no capacity every direction is alike)
                items.append({"site": site, "basic": True, "factor": 0, "tr": tr, "tier": tier, "chunk": [ch, nch], "voltage": 208})
    items.append({"site": "simple", "basic": True, "factor": 1, "tr": "agg", "tier": tier})
    return items


# ------------------------------------------------------------------------------
def oracle(spec, factor, sums, rep, ctx, stats):
    """sums: class -> total current [A] (all EVSE currents are in phase within a class)"""
    worst = 0.0
    loaded_pairs = set()
    for tr, cap in spec["transformers"].items():
        tot = sum(s for c, s in sums.items() if spec["classes"][c][1] == tr)
        p = VLL * tot
        lim = cap * factor * 1000.0
        worst = max(worst, p / lim if lim > 0 else (float("inf") if p > 0.05 else 0.0))
        if p > lim * (1 + 2e-7) + 0.05:  # W; the network itself tolerates 1e-5 A on every line constraint
            rep("power:%s" % tr, "accepted schedule draws %.3f kW through transformer %s rated %.1f kW (class sums %s)" % (p / 1000, tr, lim / 1000, {k: round(v, 3) for k, v in sums.items() if v}), p / 1000, lim / 1000, ctx)
    for c, s in sums.items():
        if s > 0:
            loaded_pairs.add(spec["classes"][c][0])
    for panel, rating in spec["panel_ratings"].items():
        pair_sums = {"ab": 0.0, "bc": 0.0, "ca": 0.0}
        for c, s in sums.items():
            if panel in spec["classes"][c][2]:
                pair_sums[spec["classes"][c][0]] += s
        ph = {k: v * cmath.exp(1j * math.radians(ANG[k])) for k, v in pair_sums.items()}
        if spec["pods_same_phase"]:
            lines = {"pod": sum(pair_sums.values())}
        else:
            lines = {"a": abs(ph["ab"] - ph["ca"]), "b": abs(ph["bc"] - ph["ab"]), "c": abs(ph["ca"] - ph["bc"])}
        for ln, cur in lines.items():
            worst = max(worst, cur / rating)
            if cur > rating * (1 + 2e-7) + 2e-5:
                rep("panel:%s" % panel, "accepted schedule puts %.4f A on %s line %s rated %.0f A" % (cur, panel, ln, rating), cur, rating, ctx)
    if worst >= 0.98 and len(loaded_pairs) >= 2:
        stats["nt"].add(tuple(sorted((k, round(v, 6)) for k, v in sums.items() if v)))
    return worst


def structure(site, spec, net, rep, stats):
    """every EVSE has a line-to-line angle, sits in exactly one class, is covered by its transformer's
    constraints, and EVSEs of one class are interchangeable for the network"""
    ids = list(net.station_ids)
    table = {}
    for c, (pair, tr, panels, members) in spec["classes"].items():
        for m in members:
            if m in table:
                rep("structure:table", "station %s twice in the reference table" % m, None, None, {"structure": True})
            table[m] = c
    if sorted(table) != sorted(ids):
        rep("structure:stations", "site stations differ from the reference table: missing %s, extra %s" % (sorted(set(table) - set(ids))[:5], sorted(set(ids) - set(table))[:5]), None, None, {"structure": True})
        return False
    cm = np.asarray(net.constraint_matrix, dtype=float)
    names = list(net.constraint_index)
    ang = np.asarray(net._phase_angles, dtype=float)
    ok = True
    for i, sid in enumerate(ids):
        pair = spec["classes"][table[sid]][0]
        if ang[i] not in (30.0, -90.0, 150.0):
            rep("structure:angle-not-line-to-line", "station %s has phase angle %r" % (sid, ang[i]), float(ang[i]), [30, -90, 150], {"structure": True})
            ok = False
        elif ang[i] != ANG[pair]:
            rep("structure:angle-wrong-pair", "station %s (line pair %s) registered at %r degrees" % (sid, pair, ang[i]), float(ang[i]), ANG[pair], {"structure": True})
            ok = False
        rows = [j for j, n in enumerate(names) if ("Secondary" in n or "Primary" in n)]
        if not any(cm[j, i] != 0 for j in rows):
            rep("structure:not-covered", "station %s appears in no transformer constraint" % sid, None, None, {"structure": True})
            ok = False
        stats["n"] += 1
    for c, (pair, tr, panels, members) in spec["classes"].items():
        cols = [cm[:, ids.index(m)] for m in members]
        for m, col in zip(members[1:], cols[1:]):
            if not np.array_equal(col, cols[0]):
                rep("structure:class-not-interchangeable", "stations %s and %s (both %s) have different constraint columns" % (members[0], m, c), None, None, {"structure": True})
                ok = False
    return ok


_IDX_CACHE = {}


def realise(spec, ids_index, n, sums, spread=False):
    x = np.zeros((n, 1))
    key = id(ids_index)
    tab = _IDX_CACHE.get(key)
    if tab is None:
        tab = {c: (np.array([ids_index[m] for m in v[3]]), 32.0 * np.arange(len(v[3]))) for c, v in spec["classes"].items()}
        _IDX_CACHE.clear()
        _IDX_CACHE[key] = tab
    for c, s in sums.items():
        if s <= 0:
            continue
        ix, steps = tab[c]
        if spread:
            x[ix, 0] = s / len(ix)
        else:  # fill-first: 32 A per EVSE until the class sum is used up
            x[ix, 0] = np.clip(s - steps, 0.0, 32.0)
    return x


def execute(item, only=None):
    viol, stats = [], {"n": 0, "nt": set(), "out": set(), "feas_calls": 0}

    def rep(sig, what, o=None, e=None, ctx=None):
        if len(viol) < 30:
            viol.append((sig, what, o, e, ctx))

    if item["site"] == "simple":
        return execute_simple(item, rep, viol, stats)
    spec = SITES[item["site"]]
    b = bounds(item["tier"], 0)
    net = build_variant(item["site"], item["basic"], item["factor"], item.get("voltage", 208), item.get("variant"))
    ids = list(net.station_ids)
    idx = {s: i for i, s in enumerate(ids)}
    if (item.get("chunk") or [0, 1])[0] != 0 and only is None:
        ok_struct = structure(item["site"], spec, net, lambda *a, **k: None, {"n": 0})
    else:
        ok_struct = structure(item["site"], spec, net, rep, stats)
    if not ok_struct:
        return viol, stats
    if only is not None and only.get("structure"):
        return viol, stats
    classes = sorted(spec["classes"])
    if item["tr"] == "joint":
        active = classes
        levels = [0, 1] if item["tier"] == "quick" else [0, 0.5, 1]
        if len(active) > 10 and item["tier"] == "quick":
            levels = [0, 1]
    else:
        active = [c for c in classes if spec["classes"][c][1] == item["tr"]]
        levels = b["levels"]
        if len(active) > 6 and len(levels) > 4:
            levels = [0, 1 / 3, 2 / 3, 1]
        if len(active) <= 3:
            # a transformer with three line-pair classes only: nine levels per class are affordable (729 directions)
            levels = [k / 8 for k in range(9)]
    capv = {c: 32.0 * len(spec["classes"][c][3]) for c in classes}
    if item["tr"] == "joint" and len(active) > 10:
        # joint block: the two transformers are independent sub-networks; pair-level directions only
        groups = {}
        for c in active:
            groups.setdefault((spec["classes"][c][1], spec["classes"][c][0]), []).append(c)
        keys = sorted(groups)
        dirs = []
        for combo in itertools.product(levels, repeat=len(keys)):
            dirs.append({c: lv for k, lv in zip(keys, combo) for c in groups[k]})
    else:
        dirs = [dict(zip(active, combo)) for combo in itertools.product(levels, repeat=len(active))]
    n = len(ids)
    ch = item.get("chunk") or [0, 1]
    dirs = [d for i, d in enumerate(dirs) if i % ch[1] == ch[0]]
    if only is not None and only.get("structure") is None and only.get("dir") is not None:
        dirs = [only["dir"]]

    buf = np.zeros((n, 1))

    def feas(sums, spread=False):
        # every query goes through ONE caller-owned buffer that is rewritten in place (the verdict is about the
        # values, not about which array object carries them)
        stats["feas_calls"] += 1
        buf[:] = realise(spec, idx, n, sums, spread)
        return bool(net.is_feasible(buf))

    def feas_lin(sums):
        # the linear relaxation is a verdict of the network too: whatever it accepts must respect the ratings
        stats["feas_calls"] += 1
        buf[:] = realise(spec, idx, n, sums)
        return bool(net.is_feasible(buf, linear=True))

    do_linear = item.get("variant") is None and item.get("voltage", 208) == 208 and (item["tier"] == "thorough" or (item["basic"] and item["factor"] in (0, 1)))

    for d in dirs:
        if not any(d.values()):
            continue
        if only is not None and only.get("dir") != d:
            continue
        full = {c: d.get(c, 0) * capv[c] for c in classes}
        ctx = {"dir": d}
        lam_pts = list(b["lambdas"])
        # boundary along this direction
        if feas(full):
            lam_star = 1.0
        else:
            lo, hi = 0.0, 1.0
            for _ in range(b["bisection_steps"]):
                mid = (lo + hi) / 2
                if feas({c: v * mid for c, v in full.items()}):
                    lo = mid
                else:
                    hi = mid
            lam_star = lo
        lam_pts.append(lam_star)
        if lam_star < 1.0:
            # two periods with the same total current: spread evenly over the site first, then the direction's load
            # 2 % beyond its boundary - a schedule with an infeasible period is infeasible
            over = {c: v * min(1.0, lam_star * 1.02) for c, v in full.items()}
            x_over = realise(spec, idx, n, over)
            if not net.is_feasible(x_over):
                x_even = np.full((n, 1), float(x_over.sum()) / n)
                stats["feas_calls"] += 2
                stats["n"] += 1
                for M, label in ((np.hstack([x_even, x_over]), "even-then-overload"), (np.hstack([x_over * 0.0, x_even, x_over]), "idle-even-overload")):
                    if net.is_feasible(M):
                        rep("multi-period:accepted-with-an-infeasible-period:%s" % label, "a schedule whose last period alone is rejected is accepted (periods with equal total current)", True, False, dict(ctx, lam=lam_star))
        if do_linear:
            # boundary of the LINEAR check along this direction (inside the phase-aware one if it is conservative)
            if feas_lin(full):
                lam_lin = 1.0
            else:
                lo, hi = 0.0, 1.0
                for _ in range(30):
                    mid = (lo + hi) / 2
                    if feas_lin({c: v * mid for c, v in full.items()}):
                        lo = mid
                    else:
                        hi = mid
                lam_lin = lo
            for lam in sorted(set(b["lambdas"]) | {lam_lin}):
                sums = {c: v * lam for c, v in full.items()}
                if lam <= lam_lin and feas_lin(sums):
                    stats["n"] += 1
                    n0 = len(viol)
                    oracle(spec, item["factor"], sums, rep, dict(ctx, lam=lam, linear=True), stats)
                    for k in range(n0, len(viol)):
                        viol[k] = ("linear:" + viol[k][0],) + tuple(viol[k][1:])
        # whole-ampere schedules handed over as INTEGER arrays (what a scheduler for finite-rate EVSEs produces): the
        # verdict is about the values, whatever the dtype, and what is accepted respects the ratings
        if do_linear:  # (the same sub-space as the linear pass: basic EVSEs, nominal and zero capacity; thorough: all)
            for fct in (1.0, 1.03, 1.1):
                xi = np.floor(realise(spec, idx, n, {c: min(v * lam_star * fct, capv[c]) for c, v in full.items()}))
                stats["feas_calls"] += 2
                stats["n"] += 1
                v_int = bool(net.is_feasible(xi.astype(np.int64)))
                v_flt = bool(net.is_feasible(xi.astype(float)))
                if v_int != v_flt:
                    rep("dtype:integer-schedule-judged-differently", "the same whole-ampere schedule is %s as an int64 array and %s as a float array" % ("accepted" if v_int else "rejected", "accepted" if v_flt else "rejected"), v_int, v_flt, dict(ctx, lam=lam_star * fct))
                elif v_int:
                    sums_i = {c: float(sum(xi[idx[m], 0] for m in spec["classes"][c][3])) for c in classes}
                    oracle(spec, item["factor"], sums_i, rep, dict(ctx, lam=lam_star * fct, integer=True), stats)
        for lam in lam_pts:
            sums = {c: v * lam for c, v in full.items()}
            stats["n"] += 1
            ok = feas(sums)
            stats["out"].add((item["site"], ok, lam == lam_star))
            if not ok:
                continue
            w = oracle(spec, item["factor"], sums, rep, dict(ctx, lam=lam), stats)
            # the quotient argument, exercised: an even spread of the same class sums gets the same verdict
            if lam == lam_star and lam_star > 0:
                sums_in = {c: v * lam_star * 0.999 for c, v in full.items()}
                if feas(sums_in) != feas(sums_in, spread=True):
                    rep("quotient:realisation-dependent", "same class sums, different verdict for fill-first vs even spread", None, None, dict(ctx, lam=lam))
    return viol, stats


def execute_simple(item, rep, viol, stats):
    for n, cap, V, typ in itertools.product((1, 3, 10), (10, 50, 150), (208, 240), ("BASIC", "AeroVironment")):
        with warnings.catch_warnings():
            warnings.simplefilter("ignore")
            net = sites.simple_acn(["S-%d" % i for i in range(n)], evse_type=typ, voltage=V, aggregate_cap=cap)
        for frac in (0.25, 0.5, 0.75, 1.0):
            full = 32.0 * n * frac
            lo, hi = 0.0, 1.0
            x1 = np.full((n, 1), full / n)
            if net.is_feasible(x1):
                lam = 1.0
            else:
                for _ in range(50):
                    mid = (lo + hi) / 2
                    if net.is_feasible(x1 * mid):
                        lo = mid
                    else:
                        hi = mid
                lam = lo
            stats["n"] += 1
            p = V * float((x1 * lam).sum())
            stats["out"].add(("simple", lam == 1.0))
            if p > cap * 1000 * (1 + 2e-7) + 1e-2:
                rep("power:simple", "simple_acn(n=%d, cap=%r kW, V=%r) accepts %.3f kW" % (n, cap, V, p / 1000), p / 1000, cap, {"simple": [n, cap, V, typ]})
            if lam < 1.0 and p > 0.98 * cap * 1000:
                stats["nt"].add(("simple", n, cap, V, typ, frac))
    return viol, stats


def run(item):
    acc = Acc()
    viol, st = execute(item)
    acc.evals += st["n"]
    acc.count("is_feasible_calls", st["feas_calls"])
    for o in st["out"]:
        acc.outcome(o)
    for n in st["nt"]:
        acc.nt((item["site"], item["basic"], item["factor"], item.get("voltage", 208), item.get("variant"), n))
    for sig, what, o, e, ctx in viol:
        acc.violation(sig, what, dict(item, only=ctx), o, e)
    acc.sample({k: item[k] for k in ("site", "basic", "factor", "tr")}, cap=3)
    return acc


def replay(scn):
    item = {k: scn[k] for k in ("site", "basic", "factor", "tr", "tier", "variant") if k in scn}
    item["chunk"] = [0, 1]
    item["voltage"] = scn.get("voltage", 208)
    viol, _ = execute(item, only=scn.get("only"))
    return [{"signature": v[0], "what": v[1], "observed": v[2], "expected": v[3]} for v in viol]
