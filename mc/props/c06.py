"""C06 - feasibility = phasor definition; three checkers agree; linear mode conservative."""
from __future__ import annotations

import cmath
import itertools
import math
import warnings

import numpy as np

from acnportal.acnsim import Simulator
from acnportal.acnsim.events import EventQueue
from acnportal.acnsim.interface import Interface
from acnportal.acnsim.models.evse import EVSE
from acnportal.acnsim.network import ChargingNetwork, Current
from acnportal.algorithms import BaseAlgorithm, UncontrolledCharging, SortedSchedulingAlgo, first_come_first_served
from acnportal.algorithms.utils import infrastructure_constraints_feasible

from mc.core import Acc, guard
from mc import simspace as S

ID = "C06"
LEVEL = "exploration"
TECHNIQUE = "exhaustive enumeration of a schedule lattice plus all boundary-aligned points (every lattice direction x every constraint x tolerance offsets) on constraint templates x registration orders x tolerance pairs; cmath phasor oracle vs the three real checkers"
RULE = (
    "templates (single-phase positive, delta-wye mixed-sign, same-phase mixed-sign, fractional, duplicated rows with different limits, unconstrained) x 2 registration orders x 6 tolerance pairs (incl. explicit 0 tolerances); "
    "schedules: {0,8,16,32}^3 and, for every lattice direction d and constraint j, lambda*d with |I_j|=limit+f*tol, f in {-3,.5,.9,1.1,2,10}, each also embedded in 2- and 3-period schedules; "
    "non-trivial = point within 10 tolerances of some constraint boundary"
)
ASSUMPTIONS = [
    "lattice + boundary points, not the continuum; no probe point lies closer than 0.1*tolerance to a decision boundary (guard band)",
    "agreement claimed when the same tolerance arguments are passed to all three checkers; linear mode compared on non-negative schedules",
    "buffer block: one ndarray owned by the caller, overwritten in place between consecutive network-side queries (phase-aware and linear)",
    "template 'emptyterm': constraints written as sums/differences with an EMPTY Current (the bundled JPL site does); multi-period schedules include neighbours 3e-6 apart (creeping across a boundary)",
    "history block: the constraint set is edited (update same name / update first / remove / add) under a live Interface; after every edit the lattice + boundary points of the edited set are re-checked",
]
CHUNK = 4
ST = ["PS-A", "PS-B", "PS-C"]
TEMPLATES = {
    "single": {"angles": [0, 0, 0], "cons": [("all", {"PS-A": 1, "PS-B": 1, "PS-C": 1}, 50.0), ("ab", {"PS-A": 1, "PS-B": 1}, 40.0)]},
    "deltawye": {
        "angles": [30, -90, 150],
        "cons": [
            ("la", {"PS-A": 1, "PS-C": -1}, 30.3),
            ("lb", {"PS-B": 1, "PS-A": -1}, 30.3),
            ("lc", {"PS-C": 1, "PS-B": -1}, 30.3),
            ("pa", {"PS-A": 0.25, "PS-B": 0.25, "PS-C": -0.5}, 14.1),
        ],
    },
    "samephase": {"angles": [30, 30, -90], "cons": [("diff", {"PS-A": 1, "PS-B": -1}, 10.0), ("sum", {"PS-A": 1, "PS-B": 1, "PS-C": 1}, 45.0)]},
    "fractional": {"angles": [30, 30, -90], "cons": [("fr", {"PS-A": 0.5, "PS-B": 1.5, "PS-C": -0.25}, 33.3), ("c", {"PS-C": 1}, 20.0)]},
    # two constraints on the SAME aggregate current with different limits, the looser one registered first
    "duprows": {"angles": [30, -90, 150], "cons": [("loose", {"PS-A": 1, "PS-B": 1}, 60.0), ("x", {"PS-C": 1, "PS-A": -1}, 30.3), ("tight", {"PS-A": 1, "PS-B": 1}, 40.5)]},
    "none": {"angles": [30, -90, 150], "cons": []},
    # EVSEs with a real maximum (32 A) under generously rated constraints: no schedule within the EVSE limits can load
    # them fully - feasibility is still decided by the currents asked about, whatever the EVSEs could deliver
    # a de-energised branch: a constraint whose limit is exactly 0 A (only the tolerance is admissible on it)
    "zero": {"angles": [30, -90, 150], "cons": [("off", {"PS-A": 1, "PS-B": 1}, 0.0), ("lc", {"PS-C": 1, "PS-B": -1}, 20.0)]},
    # constraints written the way the bundled JPL site writes them: a sum that starts from an EMPTY Current (a phase
    # without EVSEs on that panel), and a difference whose subtrahend is empty
    "emptyterm": {"angles": [30, -90, 150], "via": "empty", "cons": [("la", {"PS-A": 1, "PS-C": -1}, 30.3), ("lb", {"PS-B": 1, "PS-A": -1}, 25.7), ("pod", {"PS-B": 1, "PS-C": 1}, 40.5)]},
    "rated": {"angles": [30, -90, 150], "max_rate": 32, "cons": [("gen", {"PS-A": 1, "PS-B": 1, "PS-C": 1}, 100.0), ("d", {"PS-A": 1, "PS-C": -1}, 70.0)]},
}
# quick uses the first two registration orders, thorough all six
ORDERS = [["PS-A", "PS-B", "PS-C"], ["PS-C", "PS-A", "PS-B"], ["PS-B", "PS-C", "PS-A"], ["PS-A", "PS-C", "PS-B"], ["PS-B", "PS-A", "PS-C"], ["PS-C", "PS-B", "PS-A"]]
TOLS = [(1e-5, 1e-7), (1e-3, 1e-7), (1e-5, 1e-4), (1e-3, 1e-4), (0.0, 0.0), (0.0, 1e-4)]


def probe_scale(tj, lim):
    """distance unit for boundary probes: the tolerance itself, or 1e-6 of the limit when an explicit tolerance of 0 is asked for"""
    return tj if tj > 0 else 1e-6 * lim

LATTICE = (0.0, 8.0, 16.0, 32.0)
FS = (-3, 0.5, 0.9, 1.1, 2, 10)
LATTICE_T = (0.0, 6.0, 8.0, 16.0, 24.0, 32.0)
FS_T = (-30, -3, -1, 0.5, 0.8, 0.9, 1.1, 1.2, 2, 5, 10, 100)


def bounds(tier, seed):
    th = tier == "thorough"
    return {"templates": list(TEMPLATES), "orders": ORDERS if th else ORDERS[:2], "tolerances": TOLS, "lattice": LATTICE_T if th else LATTICE, "offsets_in_tolerances": FS_T if th else FS, "periods_per_schedule": [1, 2, 3]}


def build(tname, order, tol):
    t = TEMPLATES[tname]
    net = ChargingNetwork(violation_tolerance=tol[0], relative_tolerance=tol[1])
    for st in order:
        net.register_evse(EVSE(st, max_rate=t.get("max_rate", 1e6)), 208, t["angles"][ST.index(st)])
    with warnings.catch_warnings():
        warnings.simplefilter("ignore")
        for k, (name, coefs, lim) in enumerate(t["cons"]):
            cur = Current(dict(coefs))
            if t.get("via") == "empty":
                cur = (Current([]) + cur) if k % 2 == 0 else (cur - Current([]))
            net.add_constraint(cur, lim, name=name)
    sim = Simulator(net, BaseAlgorithm(), EventQueue(), S.START, verbose=False)
    return net, Interface(sim)


def I(tname, j, x):
    """phasor current of constraint j for station currents x (dict by station)"""
    t = TEMPLATES[tname]
    _, coefs, _ = t["cons"][j]
    z = 0j
    for st, a in coefs.items():
        z += a * x[st] * cmath.exp(1j * math.radians(t["angles"][ST.index(st)]))
    return z


def oracle(tname, cols, tol):
    """phase-aware feasibility + distance (in tolerances) to the closest boundary"""
    t = TEMPLATES[tname]
    feas, near = True, float("inf")
    for j, (_, coefs, lim) in enumerate(t["cons"]):
        tj = max(tol[0], tol[1] * lim)
        for x in cols:
            m = abs(I(tname, j, x))
            if m > lim + tj:
                feas = False
            near = min(near, abs(m - (lim + tj)) / probe_scale(tj, lim))
    return feas, near


def lin_oracle(tname, cols, tol):
    """definition of the linear relaxation: sum |a_i| x_i <= limit + tol"""
    t = TEMPLATES[tname]
    for j, (_, coefs, lim) in enumerate(t["cons"]):
        tj = max(tol[0], tol[1] * lim)
        for x in cols:
            if sum(abs(a) * x[st] for st, a in coefs.items()) > lim + tj:
                return False
    return True


def points(tname, tol, tier="quick"):
    """test columns (dict station->amps): lattice + boundary-aligned points"""
    t = TEMPLATES[tname]
    pts = []
    lattice, fs = (LATTICE_T, FS_T) if tier == "thorough" else (LATTICE, FS)
    for v in itertools.product(lattice, repeat=3):
        pts.append(("lat", dict(zip(ST, v))))
    for v in itertools.product(LATTICE, repeat=3):
        if not any(v):
            continue
        d = dict(zip(ST, v))
        for j, (_, coefs, lim) in enumerate(t["cons"]):
            m = abs(I(tname, j, d))
            if m < 1e-9:
                continue
            tj = max(tol[0], tol[1] * lim)
            for f in fs:
                lam = (lim + tj + (f - 1) * probe_scale(tj, lim)) / m
                pts.append(("bnd%d:%s" % (j, f), {st: lam * d[st] for st in ST}))
    return pts


def space(tier, seed):
    items = []
    thorough = tier == "thorough"
    for tname in TEMPLATES:
        for oi in range(len(ORDERS) if thorough else 2):
            for ti in range(len(TOLS)):
                for mode in (1, 2, 3):  # periods per schedule
                    if tname == "zero" and (0.0 in TOLS[ti] or mode == 3):
                        continue  # with limit 0 AND tolerance 0 there is no band to probe
                    if not thorough and ((0.0 in TOLS[ti] and mode == 3) or (tname == "duprows" and (ti in (1, 2, 5) or (oi == 1 and mode > 1)))):
                        continue  # keeps the quick tier short; these corners add no new code path
                    it = {"tpl": tname, "order": oi, "tol": ti, "T": mode, "tier": tier}
                    if 0.0 in TOLS[ti]:
                        it["nettol"] = 3
                    items.append(it)
    items.append({"tpl": "none", "order": 0, "tol": 0, "T": 0, "algos": True})
    # one caller-owned schedule buffer, overwritten in place between consecutive network-side queries
    for tname in ("deltawye", "single", "rated"):
        for T in (1, 2):
            items.append({"tpl": tname, "order": 1, "tol": 0, "T": T, "buf": True, "tier": tier})
    for tname in ("deltawye", "single", "fractional"):
        for oi in range(len(ORDERS) if thorough else 2):
            for ti in (0, 3):
                items.append({"tpl": tname, "order": oi, "tol": ti, "T": 1, "hist": True})
    return items


def embed(col, T, pos, filler):
    cols = [filler] * T
    cols[pos] = col
    return cols


def check_point(tname, order, tol, net, iface, cols, viol, tag, net_tol=None):
    """tol: the tolerances passed explicitly; net_tol: the tolerances the network itself carries (default: the same)"""
    net_tol = net_tol or tol
    T = len(cols)
    M = np.array([[c[st] for c in cols] for st in order])
    d_full = {st: [c[st] for c in cols] for st in order}
    exp, near = oracle(tname, cols, tol)
    if near < 0.1:
        return None, near  # inside the guard band: not decided by a float oracle
    ctx = {"tpl": tname, "order": order, "tol": list(tol), "cols": cols}
    got_n = bool(net.is_feasible(M, violation_tolerance=tol[0], relative_tolerance=tol[1]))
    got_n_default = bool(net.is_feasible(M))  # network built with the same tolerances
    info = iface.infrastructure_info()
    got_a = bool(infrastructure_constraints_feasible(M, info, violation_tolerance=tol[0], relative_tolerance=tol[1]))
    got_a1 = bool(infrastructure_constraints_feasible(M[:, 0], info, violation_tolerance=tol[0], relative_tolerance=tol[1])) if T == 1 else None
    if got_n != exp:
        viol.append(("phase-aware:network-vs-definition", "%s: network.is_feasible=%s, phasor definition says %s (%.3g tol from boundary)" % (tag, got_n, exp, near), ctx, got_n, exp))
    exp_d, near_d = (exp, near) if net_tol == tol else oracle(tname, cols, net_tol)
    if near_d >= 0.1 and got_n_default != exp_d:
        viol.append(("phase-aware:network-default-tolerances", "%s: network.is_feasible with the network's own tolerances=%s, definition %s" % (tag, got_n_default, exp), ctx, got_n_default, exp))
    if got_a != exp:
        viol.append(("phase-aware:algorithm-vs-definition", "%s: infrastructure_constraints_feasible=%s, definition %s" % (tag, got_a, exp), ctx, got_a, exp))
    if got_a1 is not None and got_a1 != exp:
        viol.append(("phase-aware:algorithm-1d-vs-definition", "%s: infrastructure_constraints_feasible(1-d)=%s, definition %s" % (tag, got_a1, exp), ctx, got_a1, exp))
    # interface: every key order, and zero rows omitted
    zero = [st for st in order if not any(d_full[st])]
    variants = []
    if zero and len(zero) < len(order):
        # omitted stations count as 0 - asked FIRST, while whatever the previous query left behind in the
        # interface (a different schedule of the same shape) is still around
        variants.append({st: d_full[st] for st in order if st not in zero})
        variants.append({st: d_full[st] for st in reversed(order) if st not in zero})
    for perm in itertools.permutations(order):
        variants.append({st: d_full[st] for st in perm})
    # rows given as Python ints where the values are integral (an idle station is [0, 0]), such a row listed FIRST
    # and fractional rows after it
    as_int = {st: ([int(v) for v in d_full[st]] if all(float(v).is_integer() for v in d_full[st]) else d_full[st]) for st in order}
    ints_first = sorted(order, key=lambda st: 0 if all(isinstance(v, int) for v in as_int[st]) else 1)
    if any(isinstance(v, int) for st in order for v in as_int[st]) and any(not isinstance(v, int) for st in order for v in as_int[st]):
        variants.append({st: as_int[st] for st in ints_first})
        variants.append({st: np.array(as_int[st]) for st in ints_first})
    for dd in variants:
        got_i = bool(iface.is_feasible(dd, violation_tolerance=tol[0], relative_tolerance=tol[1]))
        if got_i != exp:
            viol.append(("phase-aware:interface-vs-definition", "%s: Interface.is_feasible(keys %s)=%s, definition %s" % (tag, list(dd), got_i, exp), ctx, got_i, exp))
            break
    if near_d >= 0.1 and bool(iface.is_feasible(variants[0])) != exp_d:
        viol.append(("phase-aware:interface-default-tolerances", "%s: Interface.is_feasible with default tolerances != definition" % tag, ctx, None, exp))
    # ---- linear relaxation: conservative, and the three agree ---------------------
    ln = bool(net.is_feasible(M, linear=True, violation_tolerance=tol[0], relative_tolerance=tol[1]))
    li = bool(iface.is_feasible(variants[-1], linear=True, violation_tolerance=tol[0], relative_tolerance=tol[1]))
    la = bool(infrastructure_constraints_feasible(M, info, linear=True, violation_tolerance=tol[0], relative_tolerance=tol[1]))
    for who, got in (("network", ln), ("interface", li), ("algorithm", la)):
        if got and not exp:
            viol.append(("linear:not-conservative:" + who, "%s: linear %s check accepts a schedule the phase-aware definition rejects" % (tag, who), ctx, got, exp))
    if len({ln, li, la}) > 1:
        # only a disagreement away from the linear boundary is decidable
        if _lin_margin(tname, cols, tol) >= 0.1:
            viol.append(("linear:checkers-disagree", "%s: linear mode network=%s interface=%s algorithm=%s" % (tag, ln, li, la), ctx, [ln, li, la], lin_oracle(tname, cols, tol)))
    return exp, near


def _lin_margin(tname, cols, tol):
    t = TEMPLATES[tname]
    near = float("inf")
    for j, (_, coefs, lim) in enumerate(t["cons"]):
        tj = max(tol[0], tol[1] * lim)
        for x in cols:
            for m in (sum(abs(a) * x[st] for st, a in coefs.items()), abs(sum(a * x[st] for st, a in coefs.items()))):
                near = min(near, abs(m - (lim + tj)) / probe_scale(tj, lim))
    return near


def run_algos(acc):
    """a constraint-free network is usable by Interface and by the schedulers"""
    for sched in ({"kind": "unc"}, {"kind": "greedy", "sort": "fcfs"}, {"kind": "rr", "sort": "edf"}, {"kind": "greedy", "sort": "llf"}):
        scn = {"net": "N0", "sessions": [{"sid": "ev0", "st": "PS-A", "a": 0, "d": 3, "e": 5.0, "cap": 10.0, "init": 0.0, "batt": "ideal"}], "sched": sched, "period": 5}
        tr = S.run_sim(scn)
        acc.evals += 1
        if tr.error is not None:
            acc.violation("unconstrained:scheduler-unusable:" + sched["kind"], "scheduler %s on a constraint-free network raised %r" % (sched, tr.error), {"algos": True, "tpl": "none", "order": 0, "tol": 0, "T": 0}, repr(tr.error), None)
        elif not tr.sim.charging_rates.sum() > 0:
            acc.violation("unconstrained:no-charging:" + sched["kind"], "scheduler %s delivered nothing on a constraint-free network" % sched, {"algos": True, "tpl": "none", "order": 0, "tol": 0, "T": 0}, 0, ">0")
        acc.outcome(("algo", sched["kind"], type(tr.error).__name__))


HIST_STEPS = [
    # (operation, constraint position, new coefficients or None, limit factor)
    ("update", -1, None, 0.5),  # last constraint, same name, halved limit
    ("update", -1, {"PS-A": -1, "PS-B": 0.5, "PS-C": 1}, 0.8),  # last again: new mixed-sign current
    ("update", 0, None, 0.6),  # first constraint, same name (moves to the end of the table)
    ("remove", 0, None, None),
    ("add", None, {"PS-A": 1, "PS-B": -1, "PS-C": 0.5}, None),
    ("update", -1, None, 2.5),
]


def run_history(item, acc=None):
    """the three checkers keep agreeing with the definition while the constraint set is edited
    (the Interface object and its InfrastructureInfo were created BEFORE the edits)"""
    viol = []
    tname, order, tol = item["tpl"], ORDERS[item["order"]], TOLS[item["tol"]]
    # the network is built with the DEFAULT tolerances, queried once, and only then given its tolerances by
    # assigning the public attributes (the documented way to change them on a live network)
    net, iface = build(tname, order, (1e-5, 1e-7))
    iface.infrastructure_info()
    iface.get_constraints()
    net.is_feasible(np.zeros((3, 1)))
    iface.is_feasible({st: [0.0] for st in order})
    net.violation_tolerance, net.relative_tolerance = tol
    model = [(n, dict(c), l) for n, c, l in TEMPLATES[tname]["cons"]]
    for k, (op, pos, coefs, fac) in enumerate([("none", None, None, None)] + HIST_STEPS):
        with warnings.catch_warnings():
            warnings.simplefilter("ignore")
            if op == "none":
                pass  # step 0: only the tolerances were reassigned
            elif op == "update":
                n, c, l = model[pos]
                c2 = dict(coefs) if coefs is not None else c
                l2 = round(l * fac, 6) + 0.0137
                net.update_constraint(n, Current(dict(c2)), l2)
                del model[pos]
                model.append((n, c2, l2))
            elif op == "remove":
                net.remove_constraint(model[pos][0])
                del model[pos]
            else:
                net.add_constraint(Current(dict(coefs)), 27.7, name="added")
                model.append(("added", dict(coefs), 27.7))
        TEMPLATES["_hist"] = {"angles": TEMPLATES[tname]["angles"], "cons": model}
        for tag, col in points("_hist", tol):
            n0 = len(viol)
            try:
                exp, near = check_point("_hist", order, tol, net, iface, [col], viol, "after edit %d (%s) %s" % (k, op, tag))
            except Exception as exc:
                guard(exc)
                viol.append(("history:exception:%s" % type(exc).__name__, "checker raised %r after edit %d" % (exc, k), {"step": k}, repr(exc), None))
                break
            for i in range(n0, len(viol)):
                sig, what, ctx, o, e = viol[i]
                viol[i] = ("history:" + sig, what, {"step": k, "cols": [col]}, o, e)
            if acc is not None:
                acc.evals += 1
                if exp is not None:
                    acc.outcome(("hist", k, exp))
                    if near <= 10:
                        acc.nt(("hist", tname, item["order"], item["tol"], k, tag, tuple(round(v, 9) for v in col.values())))
            if len(viol) > 20:
                return viol
    return viol


def run_buffer(item, acc=None):
    """the caller keeps ONE ndarray and overwrites it in place between queries; nothing else is asked in between"""
    viol = []
    tname, order, tol, T = item["tpl"], ORDERS[item["order"]], TOLS[item["tol"]], item["T"]
    net, iface = build(tname, order, tol)
    buf = np.zeros((3, T))
    zero = {st: 0.0 for st in ST}
    for linear in (False, True):
        for tag, col in points(tname, tol, item.get("tier", "quick")):
            cols = embed(col, T, T - 1, zero)
            exp, near = oracle(tname, cols, tol)
            if linear:
                if _lin_margin(tname, cols, tol) < 0.1:
                    continue
                exp = lin_oracle(tname, cols, tol)
            elif near < 0.1:
                continue
            buf[:, :] = [[c[st] for c in cols] for st in order]
            try:
                got = bool(net.is_feasible(buf, linear=linear))
            except Exception as exc:
                guard(exc)
                viol.append(("buffer:exception:%s" % type(exc).__name__, "is_feasible on a re-used buffer raised %r" % exc, {"cols": cols}, repr(exc), None))
                return viol
            if acc is not None:
                acc.evals += 1
                acc.outcome(("buf", tname, exp, linear))
                if near <= 10:
                    acc.nt(("buf", tname, T, linear, tag, tuple(round(v, 9) for v in col.values())))
            if got != exp:
                viol.append(("buffer:network-vs-definition:%s" % ("linear" if linear else "phase-aware"), "%s: network.is_feasible on a caller-owned buffer overwritten in place = %s, definition %s" % (tag, got, exp), {"cols": cols}, got, exp))
                if len(viol) > 5:
                    return viol
    return viol


def execute(item, acc=None, only=None):
    viol = []
    if item.get("hist"):
        return run_history(item, acc)
    if item.get("buf"):
        return run_buffer(item, acc)
    if item.get("algos"):
        a = acc or Acc()
        run_algos(a)
        return [(v["signature"], v["what"], v["scenario"], v["observed"], v["expected"]) for v in a.violations] if acc is None else []
    tname, order, tol, T = item["tpl"], ORDERS[item["order"]], TOLS[item["tol"]], item["T"]
    # explicit zero tolerances are asked of a network that itself carries LARGER ones (an explicit 0 is not "not given")
    net_tol = TOLS[item["nettol"]] if item.get("nettol") is not None else tol
    net, iface = build(tname, order, net_tol)
    zero = {st: 0.0 for st in ST}
    pts = points(tname, tol, item.get("tier", "quick"))
    if not TEMPLATES[tname]["cons"]:
        # unconstrained: everything is feasible, Interface describes the network
        try:
            info = iface.infrastructure_info()
            iface.max_pilot_signal(order[0]), iface.get_constraints()
        except Exception as exc:
            guard(exc)
            viol.append(("unconstrained:interface-unusable", "Interface cannot describe a constraint-free network: %r" % exc, {"tpl": tname, "order": order, "tol": list(tol), "cols": []}, repr(exc), None))
            return viol
    for tag, col in pts:
        combos = [(pos, zero) for pos in range(T)]
        if T > 1:
            # several loaded periods at once: the same column in every period, and a 0.7-scaled neighbour
            combos.append((0, dict(col)))
            combos.append((T - 1, {st: 0.7 * v for st, v in col.items()}))
            # the same total current moved between the stations from one period to the next (equal column sums)
            rot = {ST[i]: col[ST[(i + 1) % 3]] for i in range(3)}
            combos.append((T - 1, rot))
            combos.append((0, rot))
            # a schedule creeping across a boundary: neighbouring periods that differ by three millionths (far less than
            # what array comparisons "up to rounding" tolerate, several absolute tolerances of a 30 A limit)
            combos.append((0, {st: v * (1 + 3e-6) for st, v in col.items()}))
            combos.append((T - 1, {st: v * (1 - 3e-6) for st, v in col.items()}))
        for pos, filler in combos:
            cols = embed(col, T, pos, filler)
            if only is not None and cols != only:
                continue
            try:
                exp, near = check_point(tname, order, tol, net, iface, cols, viol, tag, net_tol=net_tol)
            except Exception as exc:
                guard(exc)
                viol.append(("exception:%s" % type(exc).__name__, "checker raised %r" % exc, {"tpl": tname, "order": order, "tol": list(tol), "cols": cols}, repr(exc), None))
                continue
            if acc is not None:
                acc.evals += 1
                if exp is None:
                    acc.skipped += 1
                else:
                    acc.outcome((tname, exp, T))
                    if near <= 10:
                        acc.nt((tname, item["order"], item["tol"], T, pos, tag, tuple(round(v, 9) for v in col.values())))
    return viol


def run(item):
    acc = Acc()
    viol = execute(item, acc)
    for sig, what, ctx, o, e in viol:
        acc.violation(sig, what, dict(item, point=ctx), o, e)
    acc.sample({"template": item["tpl"], "order": ORDERS[item["order"]], "tolerances": TOLS[item["tol"]], "periods": item["T"], "points": "lattice {0,8,16,32}^3 + boundary points"}, cap=2)
    return acc


def replay(scn):
    if scn.get("algos"):
        return [{"signature": s, "what": w, "observed": o, "expected": e} for s, w, _, o, e in execute(scn)]
    if scn.get("hist"):
        return [{"signature": s, "what": w, "observed": o, "expected": e} for s, w, _, o, e in execute({k: scn[k] for k in ("tpl", "order", "tol", "T", "hist")})]
    if scn.get("buf"):
        return [{"signature": s, "what": w, "observed": o, "expected": e} for s, w, _, o, e in execute({k: scn[k] for k in ("tpl", "order", "tol", "T", "buf", "tier") if k in scn})]
    only = scn.get("point", {}).get("cols")
    item = {k: scn[k] for k in ("tpl", "order", "tol", "T", "nettol", "tier") if k in scn}
    viol = execute(item, None, only=only)
    if not viol:
        # the verdict may depend on what the SAME Interface/network objects were asked before this point
        # (state kept between queries): re-execute the item's whole query sequence
        viol = execute(item, None, only=None)
    return [{"signature": s, "what": w, "observed": o, "expected": e} for s, w, _, o, e in viol]
