"""C15 - generated sessions are well-formed and their batteries can hold the request.

Three exhaustive lattices on the real converters:
 (doc)    ACN-Data documents: connection/disconnection instants on a lattice around period
          boundaries (across DST changes, three time zones) x energies x simulation starts x
          periods x max power x max_len x force_feasible x battery-parameter dictionaries,
          through _convert_to_ev and end-to-end through get_evs over the scripted transport;
 (sample) stochastic sample matrices (incl. multi-day generate_events with an owned sample())
          x the same option menus through StochasticEvents._convert_ev_matrix / generate_events;
 (fit)    every (energy, stay) pair of a lattice x (voltage, period) menus through batt_cap_fn,
          the fitted battery being charged at full rate for the stay.
"""
from __future__ import annotations

import itertools
import math
import warnings
from datetime import datetime, timedelta
from fractions import Fraction

import numpy as np
import pytz
import zoneinfo

from acnportal.acnsim.events import acndata_events as AE
from acnportal.acnsim.events.stochastic_events import StochasticEvents
from acnportal.acnsim.models import Battery, Linear2StageBattery
from acnportal.acnsim.models.battery import batt_cap_fn
from acnportal.acndata.utils import http_date

from mc.core import Acc, guard
from mc.transport import FakeServer, owned_requests
from mc.props.c14 import ode_energy

ID = "C15"
LEVEL = "exploration"
TECHNIQUE = (
    "exhaustive enumeration of boundary-aligned lattices of session documents / stochastic samples / (energy, stay) pairs x option menus on the real converters "
    "(documents also end-to-end through get_evs over an owned transport); first-principles oracle (exact floor arithmetic, independent integration of the two-stage law)"
)
RULE = (
    "doc: (connection, disconnection) instants = k*period + {0, +1 s, period-1 s} around boundaries in 3 zones incl. DST changes x energies x starts x periods x max power x max_len x force_feasible x battery params; "
    "sample: arrival/duration lattices around period boundaries x same menus, multi-day; fit: energies x stays x (V, period); "
    "non-trivial = case in which a cap (max_len or force_feasible) binds, a time falls within 1 s of a period boundary, or the fitted battery starts below its transition SoC yet ends above it"
)
ASSUMPTIONS = [
    "StochasticEvents caps the stay at max_len HOURS (pinned by the repository's tests; the docstring says periods) - the oracle follows the tests; for samples force_feasible caps at max power x (capped) duration in hours",
    "sample lattices avoid products within 1e-9 of a period boundary unless the boundary is exactly representable (floor of a float product is then unambiguous); periods with exact 60/period",
    "capacity fit: stays >= 1 period; exact delivery within 1e-6 kWh (the fit's own bisection tolerance is 1e-9 in SoC); a ValueError from the fit is accepted only if no capacity of its menu >= the request can deliver it from empty within the stay",
    "session documents carry aware datetimes; simulation starts are aware",
]
CHUNK = 2

CAPS = [8, 24, 40, 60, 85, 100]


def bounds(tier, seed):
    th = tier == "thorough"
    return {
        "doc_periods": [1, 5, 8, 15] if not th else [1, 5, 7.5, 8, 15, 45, 60],  # 8 and 45 min do not divide an hour
        "zones": ["America/Los_Angeles", "Asia/Kolkata", "Australia/Lord_Howe"],
        "energies": [0.2, 3, 10, 40] if not th else [0.2, 1, 3, 7.7, 10, 40, 99],
        "max_len": [None, 0, 1, 12],  # 0: a cap of no period at all is a cap (the session ends where it begins)
        "max_power": [3.3, 6.656],
        "fit_energies": [0.1, 0.5, 1, 1.6, 3, 6, 7.9, 8, 8.1, 12, 20, 24, 30, 40, 55, 60] if not th else [round(0.1 * i, 1) for i in range(1, 80)] + list(range(8, 101, 1)),
        "fit_stays": [1, 2, 3, 6, 12, 13, 24, 36, 48, 72, 96, 144, 288] if not th else list(range(1, 289)),
        "fit_vp": [(208, 5), (240, 5), (208, 15), (208, 1), (208, 8)] if not th else [(208, 5), (240, 5), (208, 15), (208, 1), (277, 5), (120, 5), (208, 60), (208, 8), (240, 45), (208, 7.5)],
    }


# ------------------------------------------------------------------------------
# oracle helpers
# ------------------------------------------------------------------------------
def unix(dt):
    t = (dt - datetime(1970, 1, 1, tzinfo=pytz.utc)).total_seconds()
    return int(t) if not dt.microsecond else t


def floor_period(dt, period):
    return math.floor(Fraction(unix(dt)) / (60 * Fraction(period)))


def can_deliver(cap, request, stay, V, period):
    # guard band: 'deliverable' means deliverable with a margin (requests sitting exactly on the
    # feasibility boundary, e.g. after a force_feasible cap, are float-ambiguous for the fit)
    e, _ = ode_energy(cap, 0.0, 32 * V / 1000.0, 0.8, 32, V, stay * period)
    return e >= request * (1 + 1e-6) + 1e-6


def fit_delivery_check(ev, request, stay, V, period, pmax, kind, rep, ctx):
    """the provided two-stage fit, reached through a converter: charging at full rate for the session's own
    stay delivers exactly the request (only decidable when the battery's max power is the fit's 32 A x V)"""
    if stay < 1 or abs(pmax - 32 * V / 1000.0) > 1e-12:
        return
    bt = ev._battery
    got, _ = ode_energy(float(bt._capacity), float(bt._current_charge), pmax, 0.8, 32, V, stay * period)
    if abs(got - request) > 1e-5:
        rep("%s:fit-not-exact-for-the-stay" % kind, "fitted battery (%r kWh, initial %r) charged at full rate for the session's %d periods takes %r kWh, request %r" % (bt._capacity, bt._current_charge, stay, got, request), got, request, ctx)


def battery_checks(ev, request, kind, rep, ctx):
    b = ev._battery
    free = b._capacity - b._current_charge
    if free < request - 1e-6:  # the fit bisects the initial SoC to 1e-9, i.e. <= 1e-7 kWh
        rep("%s:battery-cannot-hold-request" % kind, "battery capacity %r, initial charge %r: free %r < request %r" % (b._capacity, b._current_charge, free, request), free, request, ctx)
    if b._current_charge < -1e-12 or b._current_charge > b._capacity + 1e-12:
        rep("%s:initial-charge-out-of-range" % kind, "initial charge %r outside [0, %r]" % (b._current_charge, b._capacity), b._current_charge, None, ctx)


BP = {
    "none": None,
    "l2-fit": {"type": Linear2StageBattery, "capacity_fn": batt_cap_fn},
    "l2-kwargs": {"type": Linear2StageBattery, "kwargs": {"transition_soc": 0.7, "noise_level": 0}},
    "ideal-explicit": {"type": Battery},
}


# ------------------------------------------------------------------------------
# documents
# ------------------------------------------------------------------------------
DAYS = {
    "America/Los_Angeles": [(2019, 3, 10), (2018, 11, 4), (2019, 6, 14)],  # DST start, DST end, ordinary
    "Asia/Kolkata": [(2019, 6, 14)],
    "Australia/Lord_Howe": [(2019, 4, 7), (2019, 10, 6)],  # 30-minute DST end / start
}


def doc_space(tier):
    b = bounds(tier, 0)
    items = []
    for zone in b["zones"]:
        for day in DAYS[zone]:
            for period in b["doc_periods"]:
                items.append({"block": "doc", "zone": zone, "day": list(day), "period": period, "tier": tier})
    return items


def doc_instants(zone, day, period, tier):
    """UTC instants around period boundaries in the local night of `day` (covers the DST switch hours)"""
    tz = pytz.timezone(zone)
    local_midnight = tz.localize(datetime(*day, 0, 0, 0))
    base = unix(local_midnight.astimezone(pytz.utc))
    psec = int(60 * period)
    k0 = -(-base // psec)  # first boundary at or after local midnight
    offs = [0, 1, psec - 1, psec - 0.4]  # the last one: a time with a fraction of a second, 0.4 s before a boundary
    ks = [0, 1, 2, 5, 12, 13] if tier == "quick" else [0, 1, 2, 3, 5, 11, 12, 13, 24, 37]
    # stretch over the 01:00-03:30 local window where DST switches happen
    span = 4 * 3600 // psec
    ks = sorted(set(k for k in ks + [span // 3, span // 2, span] if k >= 0))
    out = []
    for k in ks:
        for o in offs:
            out.append(datetime.fromtimestamp((k0 + k) * psec + o, tz=pytz.utc))
    return out


def check_doc_ev(ev, d, start, period, V, pmax, max_len, bpk, ff, rep, ctx, stats):
    off = floor_period(start, period)
    a = floor_period(d["connectionTime"], period) - off
    dep = floor_period(d["disconnectTime"], period) - off
    capped = False
    if max_len is not None and dep - a > max_len:
        dep = a + max_len
        capped = True
    if ev.arrival != a:
        rep("doc:arrival", "arrival %r, floor(connection/period) - floor(start/period) = %r" % (ev.arrival, a), ev.arrival, a, ctx)
    if ev.departure != dep:
        rep("doc:departure%s" % (":max_len" if capped else ""), "departure %r, expected %r" % (ev.departure, dep), ev.departure, dep, ctx)
    if ev.departure < ev.arrival:
        rep("doc:departure-before-arrival", "departure %r < arrival %r" % (ev.departure, ev.arrival), ev.departure, ev.arrival, ctx)
    want = d["kWhDelivered"]
    bound = False
    if ff:
        lim = pmax * (dep - a) * (period / 60)
        if lim < want:
            want, bound = lim, True
    if abs(ev.requested_energy - want) > 1e-9 * max(1.0, want):
        rep("doc:requested-energy%s" % (":force_feasible" if ff else ""), "requested energy %r, expected %r" % (ev.requested_energy, want), ev.requested_energy, want, ctx)
    if ev.session_id != d["sessionID"] or ev.station_id != d["spaceID"]:
        rep("doc:ids", "ids (%r, %r)" % (ev.session_id, ev.station_id), None, None, ctx)
    battery_checks(ev, ev.requested_energy, "doc", rep, ctx)
    if bpk == "l2-fit":
        fit_delivery_check(ev, want, dep - a, V, period, pmax, "doc", rep, ctx)
    if ev.maximum_charging_power != pmax:
        rep("doc:max-power", "battery max power %r, expected %r" % (ev.maximum_charging_power, pmax), ev.maximum_charging_power, pmax, ctx)
    if capped or bound:
        stats["nt"].add(("doc", ctx["zone"], tuple(ctx["day"]), period, unix(d["connectionTime"]), unix(d["disconnectTime"]), d["kWhDelivered"], pmax, max_len, ff, bpk))
    return a, dep


def run_doc(item, only=None):
    tier = item["tier"]
    b = bounds(tier, 0)
    zone, day, period = item["zone"], tuple(item["day"]), item["period"]
    tz = pytz.timezone(zone)
    ztz = zoneinfo.ZoneInfo(zone)
    inst = doc_instants(zone, day, period, tier)
    viol, stats = [], {"n": 0, "nt": set(), "out": set()}

    def rep(sig, what, o=None, e=None, ctx=None):
        if len(viol) < 40:
            viol.append((sig, what, o, e, ctx))

    starts = [inst[0] - timedelta(seconds=1), inst[0], inst[0] - timedelta(hours=7, minutes=3), inst[0] - timedelta(days=170, minutes=11)]
    pairs = [(c, dd) for c in inst for dd in inst if dd >= c]
    # keep the pair lattice complete but bounded: all pairs whose indices differ by a small set of gaps
    idx = {t: i for i, t in enumerate(inst)}
    pairs = [(c, dd) for c, dd in pairs if (idx[dd] - idx[c]) in (0, 1, 2, 3, 4, 7, 10, len(inst) - 1) or idx[c] == 0]
    V = 208
    menus = list(itertools.product(b["max_power"], b["max_len"], (False, True), sorted(BP)))
    energies = b["energies"]
    n = 0
    for ci, (c, dd) in enumerate(pairs):
        e = energies[ci % len(energies)]  # energies rotate over the pair lattice; every energy meets every menu below
        for ei, e2 in enumerate(energies if ci % 7 == 0 else [e]):
            # aware datetimes from two tz implementations: pytz (one tzinfo object per offset) and zoneinfo (one
            # tzinfo object for the whole zone, its offset depends on the instant)
            tzi = tz if ci % 2 == 0 else ztz
            d = {"connectionTime": c.astimezone(tzi), "disconnectTime": dd.astimezone(tzi), "kWhDelivered": e2, "sessionID": "s-%d" % ci, "spaceID": "CA-%d" % (ci % 5)}
            start = starts[(ci + ei) % len(starts)].astimezone(tzi)
            for pmax, max_len, ff, bpk in menus:
                ctx = {"zone": zone, "day": list(day), "period": period, "c": unix(c), "d": unix(dd), "e": e2, "start": unix(start), "pmax": pmax, "max_len": max_len, "ff": ff, "bp": bpk}
                if only is not None and only != ctx:
                    continue
                n += 1
                stay_expected = floor_period(d["disconnectTime"], period) - floor_period(d["connectionTime"], period)
                try:
                    with warnings.catch_warnings():
                        warnings.simplefilter("ignore")
                        ev = convert_doc(d, zone, start, period, V, pmax, max_len, BP[bpk], ff)
                except PublicRouteUnavailable:
                    stats["out"].add(("doc", "public-route-unavailable"))
                    continue
                except ValueError as exc:
                    if max_len == 0:
                        # refusing a cap of zero periods outright is as good as honouring it; ignoring it is not
                        stats["out"].add(("doc", "max_len-0-refused"))
                        continue
                    stay = stay_expected if max_len is None else min(stay_expected, max_len)
                    req = e2 if not ff else min(e2, pmax * stay * period / 60)
                    if bpk == "l2-fit" and (stay < 1 or not any(cp >= req and can_deliver(cp, req, stay, V, period) for cp in CAPS)):
                        stats["out"].add(("doc", "fit-infeasible"))
                        continue
                    rep("doc:exception:ValueError:%s" % bpk, "conversion raised %r" % (exc,), repr(exc), None, ctx)
                    continue
                except Exception as exc:
                    guard(exc)
                    if bpk == "l2-fit" and stay_expected < 1:
                        continue
                    rep("doc:exception:%s:%s" % (type(exc).__name__, bpk), "conversion raised %r" % (exc,), repr(exc), None, ctx)
                    continue
                a, dep = check_doc_ev(ev, d, start, period, V, pmax, max_len, bpk, ff, rep, ctx, stats)
                stats["out"].add(("doc", dep - a == 0, max_len is not None and dep - a == max_len, bpk))
                near = min(unix(c) % int(60 * period), unix(dd) % int(60 * period))
                if near in (0, 1, int(60 * period) - 1) and dep > a:
                    stats["nt"].add(("doc", zone, tuple(day), period, unix(c), unix(dd), e2, pmax, max_len, ff, bpk))
    stats["n"] = n
    # ---- end to end: get_evs over the owned transport (pages of RFC-1123 documents) ----
    if only is None or only.get("e2e"):
        docs = []
        sub = pairs[:: max(1, len(pairs) // 25)]
        for i, (c, dd) in enumerate(sub):
            docs.append({"connectionTime": http_date(c), "disconnectTime": http_date(dd), "doneChargingTime": http_date(dd), "kWhDelivered": energies[i % len(energies)], "sessionID": "s-%d" % i, "spaceID": "CA-%d" % (i % 5), "timezone": zone, "siteID": "0002"})
        pages = [docs[:3], [], docs[3:10], docs[10:]]
        for start in (starts[0], starts[2].astimezone(tz)):
            for max_len, ff, bpk in ((None, False, "none"), (12, True, "l2-kwargs"), (1, True, "none")):
                server = FakeServer(pages)
                with owned_requests(server):
                    with warnings.catch_warnings():
                        warnings.simplefilter("ignore")
                        try:
                            evs = AE.get_evs("tok", "caltech", start, start + timedelta(days=2), period, V, 6.656, max_len, BP[bpk], ff)
                            q = None
                            server2 = FakeServer(pages)
                        except Exception as exc:
                            guard(exc)
                            rep("doc:e2e:exception:%s" % type(exc).__name__, "get_evs raised %r" % (exc,), repr(exc), None, {"e2e": True})
                            continue
                ctx = {"e2e": True, "zone": zone, "day": list(day), "period": period}
                if [ev.session_id for ev in evs] != [d["sessionID"] for d in docs]:
                    rep("doc:e2e:sessions", "get_evs returned sessions %s" % [ev.session_id for ev in evs][:8], None, None, ctx)
                    continue
                for ev, (c, dd), dj in zip(evs, sub, docs):
                    d = {"connectionTime": c, "disconnectTime": dd, "kWhDelivered": dj["kWhDelivered"], "sessionID": dj["sessionID"], "spaceID": dj["spaceID"]}
                    check_doc_ev(ev, d, start, period, V, 6.656, max_len, bpk, ff, rep, dict(ctx, zone=zone, day=list(day)), stats)
                    stats["n"] += 1
                with owned_requests(server2):
                    with warnings.catch_warnings():
                        warnings.simplefilter("ignore")
                        q = AE.generate_events("tok", "caltech", start, start + timedelta(days=2), period, V, 6.656, max_len=max_len, battery_params=BP[bpk], force_feasible=ff)
                pend = sorted((ts, e.ev.session_id) for ts, e in q.queue)
                if pend != sorted((ev.arrival, ev.session_id) for ev in evs) or any(e.event_type != "Plugin" for _, e in q.queue):
                    rep("doc:e2e:event-queue", "generate_events queue does not hold one plug-in per session at its arrival", pend[:6], None, ctx)
                else:
                    # the sessions the event-queue entry point builds are the same sessions (same options applied)
                    by_id = {e.ev.session_id: e.ev for _, e in q.queue}
                    n0 = len(viol)
                    for (c, dd), dj in zip(sub, docs):
                        d = {"connectionTime": c, "disconnectTime": dd, "kWhDelivered": dj["kWhDelivered"], "sessionID": dj["sessionID"], "spaceID": dj["spaceID"]}
                        check_doc_ev(by_id[dj["sessionID"]], d, start, period, V, 6.656, max_len, bpk, ff, rep, dict(ctx, zone=zone, day=list(day), via="generate_events"), stats)
                        stats["n"] += 1
                    for k in range(n0, len(viol)):
                        viol[k] = (viol[k][0] + ":via-generate_events",) + tuple(viol[k][1:])
    return viol, stats


# ------------------------------------------------------------------------------
# stochastic samples
# ------------------------------------------------------------------------------
class PublicRouteUnavailable(Exception):
    """harness-side: a case that can only be expressed through the module's internal converter"""


def convert_doc(d, zone, start, period, V, pmax, max_len, bp, ff):
    """one session document -> EV. Through the module's internal converter where it exists (fast, and aware datetimes of
    any tz implementation can be handed over); otherwise through the public get_evs over the owned transport (documents
    carry whole seconds and the client localises them with pytz)."""
    conv, stamp = getattr(AE, "_convert_to_ev", None), getattr(AE, "_datetime_to_timestamp", None)
    if conv is not None and stamp is not None:
        return conv(dict(d), stamp(start, period), period, V, pmax, max_len, bp, ff)
    c, dd = d["connectionTime"], d["disconnectTime"]
    if c.microsecond or dd.microsecond or start.microsecond:
        raise PublicRouteUnavailable("fraction of a second")
    doc = {"connectionTime": http_date(c), "disconnectTime": http_date(dd), "doneChargingTime": http_date(dd), "kWhDelivered": d["kWhDelivered"], "sessionID": d["sessionID"], "spaceID": d["spaceID"], "timezone": zone, "siteID": "0002"}
    with owned_requests(FakeServer([[doc]])):
        evs = AE.get_evs("tok", "caltech", start, start + timedelta(days=400), period, V, pmax, max_len, bp, ff)
    if len(evs) != 1:
        raise PublicRouteUnavailable("get_evs returned %d sessions for one document" % len(evs))
    return evs[0]


def convert_matrix(matrix, period, V, pmax, max_len, bp, ff):
    """sample matrix -> EVs: through the internal converter where it exists, else through the public generate_events
    of a generator whose sample() returns the matrix (one day)"""
    conv = getattr(StochasticEvents, "_convert_ev_matrix", None)
    if conv is not None:
        return conv(np.array(matrix, dtype=float), period, V, pmax, max_len, bp, ff)
    q = Scripted([matrix]).generate_events([len(matrix)], period, V, pmax, max_len, bp, ff)
    evs = []
    while not q.empty():
        evs.append(q.get_event().ev)
    return sorted(evs, key=lambda e: int(e.session_id.split("_")[-1]))


class Scripted(StochasticEvents):
    def __init__(self, days):
        super().__init__()
        self.days = [np.array(d, dtype=float) for d in days]
        self.i = 0

    def sample(self, n_samples):
        m = self.days[self.i % len(self.days)][:n_samples].copy()
        self.i += 1
        return m


def sample_space(tier):
    periods = [5, 15] if tier == "quick" else [1, 5, 7.5, 15, 60]
    return [{"block": "sample", "period": p, "tier": tier} for p in periods]


def sample_rows(period, tier):
    pph = Fraction(60) / Fraction(period)
    sec = 1.0 / 3600
    arrs, durs = [], []
    for k in ([0, 1, 78, 99] if tier == "quick" else [0, 1, 2, 78, 99, 143, 287]):
        base = float(Fraction(k) / pph)
        # (the last offset: two ten-millionths of a period BEFORE the boundary - still the earlier period)
        for o in (0.0, sec, -sec, float(Fraction(1) / pph) / 2, -float(Fraction(2, 10**7) / pph)):
            a = base + o
            if a >= 0:
                arrs.append(a)
    for k in ([1, 2, 12, 13, 40] if tier == "quick" else [1, 2, 3, 11, 12, 13, 36, 40, 100]):
        base = float(Fraction(k) / pph)
        for o in (0.0, sec, -sec, -float(Fraction(2, 10**7) / pph)):
            if base + o > 0:
                durs.append(base + o)
    durs += [0.01, 0.9999, 1.0, 1.0001, 12.0, 12.5]
    rows = []
    for a in arrs:
        for du in durs:
            # guard band: floor of a float product must be unambiguous
            ok = True
            for x in (a, a + du):
                ex = Fraction(x) * pph
                fr = ex - math.floor(ex)
                if fr != 0 and (fr < Fraction(1, 10**9) or 1 - fr < Fraction(1, 10**9)):
                    ok = False
                if fr == 0 and float(ex) != x * float(pph):
                    ok = False
            if ok:
                rows.append((a, du))
    return rows


def run_sample(item, only=None):
    tier, period = item["tier"], item["period"]
    b = bounds(tier, 0)
    pph = Fraction(60) / Fraction(period)
    rows = sample_rows(period, tier)
    viol, stats = [], {"n": 0, "nt": set(), "out": set(), "skipped": 0}

    def rep(sig, what, o=None, e=None, ctx=None):
        if len(viol) < 40:
            viol.append((sig, what, o, e, ctx))

    V = 208
    energies = b["energies"]
    menus = list(itertools.product(b["max_power"], b["max_len"], (False, True), sorted(BP)))
    for pmax, max_len, ff, bpk in menus:
        matrix = [[a, du, energies[i % len(energies)]] for i, (a, du) in enumerate(rows)]
        # invalid rows are interleaved: they must not disturb the valid ones
        matrix.insert(3, [-1.0, 2.0, 5.0])
        matrix.insert(7, [3.0, 0.0, 5.0])
        matrix.insert(11, [3.0, 2.0, 0.0])
        ctx0 = {"period": period, "pmax": pmax, "max_len": max_len, "ff": ff, "bp": bpk}
        if only is not None and {k: only.get(k) for k in ctx0} != ctx0:
            continue
        results = {}
        whole_failed = None
        try:
            with warnings.catch_warnings():
                warnings.simplefilter("ignore")
                import io, contextlib

                with contextlib.redirect_stdout(io.StringIO()):
                    evs = convert_matrix(matrix, period, V, pmax, max_len, BP[bpk], ff)
            results = {ev.session_id: ev for ev in evs}
        except Exception as exc:
            guard(exc)
            whole_failed = exc
        for ridx, (a, du, en) in enumerate(matrix):
            if a < 0 or du <= 0 or en <= 0:
                continue
            ctx = dict(ctx0, row=[a, du, en])
            stats["n"] += 1
            du2 = du if max_len is None or du <= max_len else float(max_len)
            exp_a = math.floor(Fraction(a) * pph)
            exp_d = math.floor(Fraction(a + du2) * pph)
            req = en if not ff else min(en, pmax * du2)
            ev = results.get("session_%d" % ridx)
            if whole_failed is not None or ev is None:
                # convert this row alone to attribute the failure
                try:
                    with warnings.catch_warnings():
                        warnings.simplefilter("ignore")
                        ev = convert_matrix([[a, du, en]], period, V, pmax, max_len, BP[bpk], ff)[0]
                except ValueError as exc:
                    if max_len == 0:
                        stats["out"].add(("sample", "max_len-0-refused"))
                        continue
                    stay = exp_d - exp_a
                    if bpk == "l2-fit" and (stay < 1 or not any(cp >= req and can_deliver(cp, req, stay, V, period) for cp in CAPS)):
                        stats["out"].add(("sample", "fit-infeasible"))
                        continue
                    rep("sample:exception:ValueError:%s" % bpk, "converting sample (arrival %r h, duration %r h, %r kWh) raised %r although a %s-period stay can take the request" % (a, du, en, exc, stay), repr(exc), None, ctx)
                    continue
                except Exception as exc:
                    guard(exc)
                    rep("sample:exception:%s:%s" % (type(exc).__name__, bpk), "converting sample %r raised %r" % ([a, du, en], exc), repr(exc), None, ctx)
                    continue
            if ev.arrival != exp_a:
                rep("sample:arrival", "arrival %r, floor(%r h in periods) = %r" % (ev.arrival, a, exp_a), ev.arrival, exp_a, ctx)
            if ev.departure != exp_d:
                rep("sample:departure%s" % (":max_len" if du2 != du else ""), "departure %r, expected %r" % (ev.departure, exp_d), ev.departure, exp_d, ctx)
            if ev.departure < ev.arrival:
                rep("sample:departure-before-arrival", "departure %r < arrival %r" % (ev.departure, ev.arrival), ev.departure, ev.arrival, ctx)
            if abs(ev.requested_energy - req) > 1e-9 * max(1.0, req):
                rep("sample:requested-energy%s" % (":force_feasible" if ff else ""), "requested energy %r, expected %r" % (ev.requested_energy, req), ev.requested_energy, req, ctx)
            battery_checks(ev, ev.requested_energy, "sample", rep, ctx)
            if bpk == "l2-fit":
                fit_delivery_check(ev, req, exp_d - exp_a, V, period, pmax, "sample", rep, ctx)
            if bpk == "l2-fit" and exp_d - exp_a >= 1:
                # the fitted battery must be able to take the request within the session's own stay
                bt = ev._battery
                got, _ = ode_energy(bt._capacity, bt._current_charge, 32 * V / 1000.0, 0.8, 32, V, (exp_d - exp_a) * period)
                if got < req - 1e-6 and any(cp >= req and can_deliver(cp, req, exp_d - exp_a, V, period) for cp in CAPS):
                    rep("sample:fit-for-wrong-stay", "fitted battery (%r kWh, init %r) takes only %r kWh in the session's %d periods, request %r" % (bt._capacity, bt._current_charge, got, exp_d - exp_a, req), got, req, ctx)
            stats["out"].add(("sample", du2 != du, ff and req < en, bpk))
            if du2 != du or (ff and req < en):
                stats["nt"].add(("sample", period, a, du, en, pmax, max_len, ff, bpk))
    # ---- generate_events, multi-day, owned sample() ----------------------------------
    if only is None or only.get("gen"):
        for gperiod in (period, 7, 11):  # 7 and 11 minutes do not divide a day
            gpph = Fraction(60) / Fraction(gperiod)
            fpph = 60 / gperiod
            day_rows = []
            for i, (a, du) in enumerate([(0.26, 1.3), (6.5, 8.0), (8.3, 6.05), (10.0, 3.0), (13.77, 0.6), (23.9, 2.2)] if gperiod != period else rows[:6]):
                day_rows.append([a, du, 5.0 + i])
            days = [3, 0, 2, 1]
            exp, ok = [], True
            for dnum, n, src in ((0, 3, day_rows), (2, 2, day_rows[::-1]), (3, 1, day_rows)):
                for a, du, en in src[:n]:
                    aa = a + 24 * dnum
                    for x in (aa, aa + du):  # guard band: the floor of the float product must be unambiguous
                        fr = Fraction(x) * Fraction(fpph) - math.floor(Fraction(x) * Fraction(fpph))
                        if fr < Fraction(1, 10**6) or 1 - fr < Fraction(1, 10**6):
                            ok = ok and fr == 0 and gperiod == period
                    exp.append((math.floor(Fraction(aa) * Fraction(fpph)), math.floor(Fraction(aa) * Fraction(fpph)), math.floor(Fraction(aa + du) * Fraction(fpph)), en))
            if not ok and gperiod != period:
                continue
            gen = Scripted([day_rows, day_rows[::-1], day_rows])
            with warnings.catch_warnings():
                warnings.simplefilter("ignore")
                q = gen.generate_events(days, gperiod, V, 6.656)
            got = sorted((ts, e.ev.arrival, e.ev.departure, e.ev.requested_energy) for ts, e in q.queue)
            stats["n"] += 1
            if got != sorted(exp):
                rep("sample:generate_events", "multi-day generate_events (period %r min) queue %s, expected %s" % (gperiod, got, sorted(exp)), got, sorted(exp), {"gen": True, "period": period})
    # ---- the same generator asked twice: a sampler that hands out its STORED array, one non-empty day, first with
    # restrictive options (stay cap, feasibility cap), then with none - the second answer is about the original samples
    if only is None or only.get("twice"):
        stored = np.array([[0.26, 13.3, 95.0], [6.51, 8.02, 5.0], [8.3, 16.05, 120.0]], dtype=float)

        class Stored(StochasticEvents):
            def sample(self, n_samples):
                return stored[:n_samples]

        fpph = Fraction(60) / Fraction(period)
        ok = all((Fraction(x) * fpph - math.floor(Fraction(x) * fpph)) > Fraction(1, 10**6) for a, du, _ in stored.tolist() for x in (a, a + du, a + 1.0))
        if ok:
            gen = Stored()
            with warnings.catch_warnings():
                warnings.simplefilter("ignore")
                q1 = gen.generate_events([0, 3], period, V, 6.656, max_len=1, force_feasible=True)
                q2 = gen.generate_events([0, 3], period, V, 6.656)
            stats["n"] += 2
            for label, q, ml, ff in (("restrictive", q1, 1.0, True), ("unrestricted-after-restrictive", q2, None, False)):
                exp = []
                for a, du, en in [[0.26, 13.3, 95.0], [6.51, 8.02, 5.0], [8.3, 16.05, 120.0]]:
                    aa = a + 24.0
                    du2 = du if ml is None else min(du, ml)
                    exp.append((math.floor(Fraction(aa) * fpph), math.floor(Fraction(aa + du2) * fpph), round(min(en, 6.656 * du2) if ff else en, 9)))
                got = sorted((e.ev.arrival, e.ev.departure, round(float(e.ev.requested_energy), 9)) for ts, e in q.queue)
                if got != sorted(exp):
                    rep("sample:generate_events:%s" % label, "generate_events (%s options, the sampler returns its stored array) gave %s, expected %s" % (label, got, sorted(exp)), got, sorted(exp), {"twice": True, "period": period})
    return viol, stats


# ------------------------------------------------------------------------------
# capacity fit
# ------------------------------------------------------------------------------
def fit_space(tier):
    b = bounds(tier, 0)
    items = []
    for V, period in b["fit_vp"]:
        stays = b["fit_stays"]
        step = 16 if tier == "quick" else 24
        for i in range(0, len(stays), step):
            items.append({"block": "fit", "V": V, "period": period, "stays": stays[i : i + step], "tier": tier})
    return items


def run_fit(item, only=None):
    b = bounds(item["tier"], 0)
    V, period = item["V"], item["period"]
    viol, stats = [], {"n": 0, "nt": set(), "out": set()}

    def rep(sig, what, o=None, e=None, ctx=None):
        if len(viol) < 40:
            viol.append((sig, what, o, e, ctx))

    pmax = 32 * V / 1000.0
    for stay in item["stays"]:
        # every request is followed by one 0.4 Wh larger (two requests that close are still two requests)
        for en in [x for e0 in b["fit_energies"] for x in (e0, round(e0 + 0.0004, 7))]:
            ctx = {"V": V, "period": period, "stay": stay, "e": en}
            if only is not None and only != ctx:
                continue
            stats["n"] += 1
            try:
                with warnings.catch_warnings():
                    warnings.simplefilter("ignore")
                    cap, init = batt_cap_fn(en, stay, V, period)
            except ValueError:
                feas = [cp for cp in CAPS if cp >= en and can_deliver(cp, en, stay, V, period)]
                if feas:
                    rep("fit:spurious-infeasible", "batt_cap_fn(%r kWh, %r periods) raised although a %r kWh battery takes the request from empty" % (en, stay, feas[0]), "ValueError", feas[0], ctx)
                stats["out"].add(("fit", "infeasible"))
                continue
            except Exception as exc:
                guard(exc)
                rep("fit:exception:%s" % type(exc).__name__, "batt_cap_fn(%r, %r, %r, %r) raised %r" % (en, stay, V, period, exc), repr(exc), None, ctx)
                continue
            cap, init = float(cap), float(init)
            if not (0 <= init <= cap) or cap < en:
                rep("fit:range", "capacity %r, initial charge %r for a request of %r" % (cap, init, en), [cap, init], None, ctx)
                continue
            # real battery charged at full rate for the whole stay
            bt = Linear2StageBattery(cap, init, pmax)
            for _ in range(stay):
                bt.charge(32, V, period)
            gained = bt._current_charge - init
            ref, crossed = ode_energy(cap, init, pmax, 0.8, 32, V, stay * period)
            small = en <= 0.2 * cap
            if abs(gained - en) > 1e-6:
                rep(
                    "fit:delivers-%s:%s" % ("more" if gained > en else "less", "request<=20%-of-capacity" if small else "request>20%-of-capacity"),
                    "batt_cap_fn(%r kWh, %r periods, %r V, %r min) -> (%r, %r); charging at 32 A for the stay delivers %r kWh" % (en, stay, V, period, cap, init, gained),
                    gained,
                    en,
                    ctx,
                )
            elif abs(ref - en) > 1e-5:
                rep("fit:law-disagrees", "fitted battery delivers %r by the documented law, request %r" % (ref, en), ref, en, ctx)
            stats["out"].add(("fit", cap, init / cap >= 0.8))
            if crossed and init / cap < 0.8:
                stats["nt"].add(("fit", V, period, stay, en))
    return viol, stats


# ------------------------------------------------------------------------------
def space(tier, seed):
    return doc_space(tier) + sample_space(tier) + fit_space(tier)


def execute(item, only=None):
    return {"doc": run_doc, "sample": run_sample, "fit": run_fit}[item["block"]](item, only)


def run(item):
    acc = Acc()
    viol, st = execute(item)
    acc.evals += st["n"]
    for o in st["out"]:
        acc.outcome(o)
    for n in st["nt"]:
        acc.nt(n)
    acc.count("cases_" + item["block"], st["n"])
    for sig, what, o, e, ctx in viol:
        acc.violation(sig, what, dict(item, only=ctx), o, e)
    acc.sample({k: v for k, v in item.items() if k != "tier"}, cap=2)
    return acc


def replay(scn):
    item = {k: v for k, v in scn.items() if k != "only"}
    viol, _ = execute(item, only=scn.get("only"))
    return [{"signature": v[0], "what": v[1], "observed": v[2], "expected": v[3]} for v in viol]
