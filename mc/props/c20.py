"""C20 - ACN-Data client yields every session once and converts times faithfully.

CHOICE over server answers: the `requests` name inside data_client is owned by a scripted
server. EVERY page structure (all compositions of n <= N sessions into <= P pages, empty
pages included) x timeseries x presence of cond/project/sort x site is served to the real
DataClient.get_sessions / get_sessions_by_time; the yielded documents and the complete
request log are compared with a list-of-pages model. Time conversion: every instant of a
30-minute lattice over DST-transition days in 7 zones, as top-level fields and inside
time-series lists, against an independent (zoneinfo) reference; http_date round trip.
"""
from __future__ import annotations

import copy
import itertools
import json
import zoneinfo
from datetime import datetime, timedelta, timezone

import pytz

from acnportal.acndata import DataClient
from acnportal.acndata.utils import http_date, parse_http_date, parse_dates

from mc.core import Acc, guard
from mc.transport import FakeServer, MultiServer, owned_requests

ID = "C20"
LEVEL = "model_checking"
TECHNIQUE = (
    "exhaustive enumeration of server answer sequences (all page compositions incl. empty pages) x query-argument combinations against the real DataClient over an owned transport; "
    "list-of-pages reference model on yielded items and the complete request log; exhaustive instant lattice x zones for the time conversion (zoneinfo reference)"
)
RULE = (
    "pages: all tuples of page sizes >=0 with <=P pages summing to n<=N, x timeseries x {cond,project,sort present/absent} x 3 sites (+ invalid sites); get_sessions_by_time x start/end/min_energy present/absent; "
    "times: 30-min lattice (seconds 0/59) over DST-change and ordinary days x 7 zones, top-level and time-series fields, and every ordered zone pair with identical strings parsed alternately; state = (pages consumed, items yielded); "
    "non-trivial = paging with >=2 pages of which one is empty or >=3 pages; instants within 2 h of a DST change"
)
ASSUMPTIONS = [
    "HTTP errors / malformed payloads are not modelled (the property defines no behaviour under them); the server links pages through _links.next.href relative to the base url",
    "query parameters are compared as a parsed multiset (name=value), not as a literal string",
    "zone rules: the reference uses the system tz database through zoneinfo, the client pytz (both must describe the same instants)",
    "faults block (fault sequences): the owned transport raises requests.ConnectionError on request k..k+m-1 (every k, m = 1..3) of every page structure up to 4 (thorough 6) sessions / 4 (5) pages; giving up and retrying are both acceptable, duplicates / reordering / silent loss are not",
    "longchain block: one chain of 1200-1500 (thorough: up to 6000) one-session pages, some of them empty, through the time-series endpoint",
    "interleave block: 2-3 generators of one DataClient advanced in every distinct order of next() calls (capped at 1500 / 20000 orders per page menu, the cap is reported)",
]
CHUNK = 4

BASE = "https://ev.caltech.edu/api/v1/"
ZONES = ["America/Los_Angeles", "UTC", "Asia/Kolkata", "Australia/Lord_Howe", "Europe/London", "America/Sao_Paulo", "Pacific/Chatham"]
DST_DAYS = {
    "America/Los_Angeles": [(2018, 3, 11), (2018, 11, 4), (2019, 3, 10), (2019, 11, 3)],
    "Europe/London": [(2018, 3, 25), (2018, 10, 28), (2019, 3, 31), (2019, 10, 27)],
    "Australia/Lord_Howe": [(2018, 4, 1), (2018, 10, 7), (2019, 4, 7), (2019, 10, 6)],
    "America/Sao_Paulo": [(2018, 2, 18), (2018, 11, 4), (2019, 2, 17)],
    "Pacific/Chatham": [(2018, 4, 1), (2018, 9, 30), (2019, 4, 7), (2019, 9, 29)],
    "UTC": [],
    "Asia/Kolkata": [],
}
ORDINARY = [(2018, 1, 1), (2018, 7, 4), (2019, 2, 28), (2019, 12, 31)]
# thorough: every month boundary of two years (one of them a leap year)
MONTH_ENDS = [(y, m, 1) for y in (2019, 2020) for m in range(1, 13)] + [(2020, 2, 29), (2020, 12, 31)]


def bounds(tier, seed):
    return {"max_sessions": 5 if tier == "quick" else 9, "max_pages": 5 if tier == "quick" else 7, "zones": ZONES, "instant_step_min": 30 if tier == "quick" else 10, "seconds": [0, 59], "extra_days_thorough": "last and first day of every month of 2019/2020, leap day"}


def compositions(n, pmax):
    """all tuples of >=0 page sizes, length 0..pmax, summing to n (length 0 only for n == 0)"""
    out = []
    if n == 0:
        out.append(())
    for p in range(1, pmax + 1):
        for cuts in itertools.combinations_with_replacement(range(n + 1), p - 1):
            sizes = []
            prev = 0
            for c in cuts:
                sizes.append(c - prev)
                prev = c
            sizes.append(n - prev)
            out.append(tuple(sizes))
    return out


def space(tier, seed):
    b = bounds(tier, seed)
    items = []
    for n in range(0, b["max_sessions"] + 1):
        for comp in compositions(n, b["max_pages"]):
            items.append({"block": "pages", "sizes": list(comp)})
    items.append({"block": "bytime"})
    for n in range(1, 5 if tier == "quick" else 7):
        for comp in compositions(n, 4 if tier == "quick" else 5):
            if len(comp) >= 2:
                items.append({"block": "faults", "sizes": list(comp)})
    for n, every in ((1500, 0), (1200, 7)) + (((6000, 0), (5000, 3)) if tier == "thorough" else ()):
        items.append({"block": "longchain", "pages": n, "empty_every": every})
    items.append({"block": "interleave", "cap": 1500 if tier == "quick" else 20000})
    for z in ZONES:
        items.append({"block": "times", "zone": z, "tier": tier})
    # the same timestamp strings met in documents of two different zones, one after the other in one process
    for za in ZONES:
        for zb in ZONES:
            if za != zb:
                items.append({"block": "zonepair", "zones": [za, zb], "tier": tier})
    return items


STREAM_ZONES = ("America/Los_Angeles", "Asia/Kolkata", "America/Los_Angeles", "Australia/Lord_Howe", "UTC")
FMT = "%a, %d %b %Y %H:%M:%S GMT"


def is_date_string(v):
    if not isinstance(v, str):
        return False
    try:
        datetime.strptime(v, FMT)
        return True
    except ValueError:
        return False


def mkdoc(i, zone=None):
    """one session document the way Eve serves it: the resource's fields plus Eve's own _id/_created/_updated/_etag
    (the two dates in RFC-1123 form like every other date); consecutive documents of one result set come from
    different time zones"""
    if zone is None:
        zone = STREAM_ZONES[i % len(STREAM_ZONES)]
    t0 = datetime(2019, 5, 1, 15, 0, 0, tzinfo=timezone.utc) + timedelta(hours=7 * i, seconds=13 * i)
    return {
        "_id": "id-%d" % i,
        "_created": (t0 + timedelta(days=2, minutes=7)).strftime(FMT),
        "_updated": (t0 + timedelta(days=40, hours=23)).strftime(FMT),
        "_etag": "etag%d" % i,
        "sessionID": "sess-%d" % i,
        "connectionTime": t0.strftime("%a, %d %b %Y %H:%M:%S GMT"),
        "disconnectTime": (t0 + timedelta(hours=5)).strftime("%a, %d %b %Y %H:%M:%S GMT"),
        "doneChargingTime": None if i % 2 else (t0 + timedelta(hours=3)).strftime("%a, %d %b %Y %H:%M:%S GMT"),
        "kWhDelivered": 3.5 + i,
        "siteID": "0002",
        "spaceID": "CA-%d" % i,
        "stationID": "2-39-%d" % i,
        "timezone": zone,
        "userID": None,
    }


def parse_query(url):
    if "?" not in url:
        return url, []
    path, q = url.split("?", 1)
    return path, sorted(tuple(p.split("=", 1)) for p in q.split("&"))


# ------------------------------------------------------------------------------
def run_pages(item, only=None):
    sizes = item["sizes"]
    viol, stats = [], {"n": 0, "states": [], "out": set(), "nt": False}

    def rep(sig, what, o=None, e=None, ctx=None):
        if len(viol) < 20:
            viol.append((sig, what, o, e, ctx))

    n = sum(sizes)
    docs = [mkdoc(i) for i in range(n)]
    pages, k = [], 0
    for s in sizes:
        pages.append(docs[k : k + s])
        k += s
    combos = list(itertools.product(("caltech", "jpl", "office001"), (False, True), (None, 'kWhDelivered > 5 and userID == "x"'), (None, '{"sessionID": 1}', '{"kWhDelivered": 1, "connectionTime": 1, "siteID": 1}'), (None, "connectionTime")))
    for site, ts, cond, project, sort in combos:
        ctx = {"site": site, "ts": ts, "cond": cond, "project": project, "sort": sort}
        if only is not None and only != ctx:
            continue
        if site != "caltech" and (cond is None) != (sort is None):
            continue  # the other sites run the all-present / all-absent corners; caltech runs the full cube
        if project is not None and "kWh" in project and (site != "caltech" or ts):
            continue
        # the server honours a projection the way Eve does: the named fields plus _id
        keep = None if project is None else set(json.loads(project)) | {"_id", "_created", "_updated", "_etag"}
        served = copy.deepcopy(pages) if keep is None else [[{k: v for k, v in d.items() if k in keep} for d in pg] for pg in pages]
        server = FakeServer(served, base=BASE)
        client = DataClient("tok-123")
        stats["n"] += 1
        got = []
        try:
            with owned_requests(server):
                for d in client.get_sessions(site, cond=cond, project=project, sort=sort, timeseries=ts):
                    got.append(d)
                    stats["states"].append((tuple(sizes), len(server.log), len(got)))
                    if len(got) > n + 3:
                        break
        except Exception as exc:
            guard(exc)
            rep("pages:exception:%s" % type(exc).__name__, "get_sessions over pages %s raised %r" % (sizes, exc), repr(exc), None, ctx)
            continue
        ids = [d.get("_id") for d in got]
        want = [d["_id"] for d in docs]
        if ids != want:
            if sorted(ids) == sorted(want):
                sig = "pages:order"
            elif len(ids) > len(set(ids)):
                sig = "pages:duplicate"
            elif set(ids) < set(want):
                sig = "pages:lost:%s" % ("after-empty-page" if 0 in sizes[:-1] else "other")
            else:
                sig = "pages:items"
            rep(sig, "pages %s: yielded %s, server holds %s" % (sizes, ids, want), ids, want, ctx)
        # request log: first request + exactly the next links, all authenticated
        npages = max(1, len(sizes))
        log = server.log
        if len(log) != npages:
            rep("requests:count", "pages %s: %d requests sent, %d pages exist" % (sizes, len(log), npages), len(log), npages, ctx)
        if log:
            path, q = parse_query(log[0][1])
            want_path = BASE + "sessions/" + site + ("/ts/" if ts else "")
            want_q = []
            if cond is not None:
                want_q.append(("where", cond))
            if project is not None:
                want_q.append(("project", project))
            if sort is not None:
                want_q.append(("sort", sort))
            want_q.append(("max_results", "1" if ts else "100"))
            if path != want_path:
                rep("requests:endpoint", "first request goes to %r, expected %r" % (path, want_path), path, want_path, ctx)
            if q != sorted(want_q):
                missing = sorted(set(k for k, _ in want_q) - set(k for k, _ in q))
                rep("requests:parameters%s" % (":missing-" + missing[0] if missing else ""), "first request carries %s, expected %s" % (q, sorted(want_q)), q, sorted(want_q), ctx)
            for j, (meth, url, auth) in enumerate(log):
                if meth != "GET" or auth != ("tok-123", ""):
                    rep("requests:auth", "request %d (%s) sent with auth %r" % (j, url, auth), auth, ("tok-123", ""), ctx)
                    break
                if j >= 1 and url != BASE + "sessions/page?cursor=%d&max_results=keep" % j:
                    rep("requests:next-link", "request %d went to %r, the server's next link was cursor=%d" % (j, url, j), url, j, ctx)
                    break
        # dates were converted in place
        for d, src in zip(got, docs):
            if keep is not None:
                src = {k: v for k, v in src.items() if k in keep}
            if set(d) != set(src):
                rep("pages:fields-added-or-dropped", "yielded document has fields %s, the server sent %s" % (sorted(d), sorted(src)), sorted(d), sorted(src), ctx)
                break
            unparsed = [k for k in src if is_date_string(src[k]) and not isinstance(d[k], datetime)]
            if unparsed or any(src[k] is None and d[k] is not None for k in src):
                rep("pages:dates-not-parsed", "yielded document still carries RFC-1123 strings in %s" % unparsed, str(d.get(unparsed[0])) if unparsed else None, None, ctx)
                break
            bad_instant, bad_zone = False, None
            dz = pytz.timezone(src["timezone"]) if "timezone" in src else pytz.utc
            for k in src:
                if is_date_string(src[k]) and isinstance(d[k], datetime):
                    want_i = datetime.strptime(src[k], FMT)
                    if d[k].tzinfo is None or d[k].astimezone(timezone.utc).replace(tzinfo=None) != want_i:
                        bad_instant = True
                    elif d[k].utcoffset() != pytz.utc.localize(want_i).astimezone(dz).utcoffset():
                        bad_zone = (k, str(d[k]), src.get("timezone"))
            if bad_instant:
                rep("pages:dates-instant", "a yielded document's time field is naive or denotes another instant than the server's string", None, None, ctx)
                break
            if bad_zone:
                rep("pages:dates-zone", "field %s = %s does not carry the offset of the document's own time zone %s (documents of several zones in one result set)" % bad_zone, bad_zone[1], bad_zone[2], ctx)
                break
            if any(d[k] != src[k] for k in src if not is_date_string(src[k])):
                rep("pages:fields-altered", "non-date fields altered", None, None, ctx)
                break
        stats["out"].add((len(sizes), 0 in sizes, n))
    # ---- invalid sites: rejected before any request -----------------------------------
    if only is None or only.get("invalid"):
        for bad in ("Caltech", "", "office", "jpl ", None, "cal", "001", "caltech/", "jpl,caltech"):
            server = FakeServer(copy.deepcopy(pages), base=BASE)
            stats["n"] += 1
            with owned_requests(server):
                try:
                    list(DataClient("tok").get_sessions(bad))
                    rep("site:invalid-accepted", "site %r accepted" % (bad,), None, "ValueError", {"invalid": True})
                except ValueError:
                    pass
                except Exception as exc:
                    guard(exc)
                    rep("site:wrong-exception", "site %r raised %r" % (bad, exc), repr(exc), "ValueError", {"invalid": True})
                if server.log:
                    rep("site:request-before-rejection", "site %r: %d request(s) sent before the rejection" % (bad, len(server.log)), len(server.log), 0, {"invalid": True})
                try:
                    DataClient("tok").count_sessions(bad)
                    rep("site:invalid-accepted:count", "count_sessions(%r) accepted" % (bad,), None, "ValueError", {"invalid": True})
                except ValueError:
                    pass
                except Exception as exc:
                    guard(exc)
                    rep("site:wrong-exception", "count_sessions(%r) raised %r" % (bad, exc), repr(exc), "ValueError", {"invalid": True})
                if server.log:
                    rep("site:request-before-rejection", "count_sessions(%r) sent a request" % (bad,), len(server.log), 0, {"invalid": True})
    stats["nt"] = len(sizes) >= 3 or (len(sizes) >= 2 and 0 in sizes)
    return viol, stats


def run_bytime(item, only=None):
    viol, stats = [], {"n": 0, "states": [], "out": set(), "nt": False}

    def rep(sig, what, o=None, e=None, ctx=None):
        if len(viol) < 20:
            viol.append((sig, what, o, e, ctx))

    la = pytz.timezone("America/Los_Angeles")
    starts = [None, la.localize(datetime(2019, 3, 10, 1, 30)), datetime(2018, 11, 4, 9, 15, 7, tzinfo=timezone.utc), pytz.timezone("Asia/Kolkata").localize(datetime(2019, 6, 1, 0, 0))]
    ends = [None, la.localize(datetime(2019, 3, 11, 3, 30)), datetime(2019, 1, 1, 0, 0, tzinfo=timezone.utc)]
    docs = [mkdoc(i) for i in range(4)]
    combos = list(itertools.product(starts, ends, (None, 0, 7.5), (False, True)))
    # thresholds with many significant digits / large magnitude (the filter must carry the number the caller gave)
    combos += [(st, en, me, False) for st in starts[:2] for en in ends[:2] for me in (12.345678, 1234567, 0.1 + 0.2, 2.5e-7, 123456789.25)]
    for st, en, me, ts in combos:
        ctx = {"start": st.isoformat() if st else None, "end": en.isoformat() if en else None, "min_energy": me, "ts": ts}
        if only is not None and only != ctx:
            continue
        server = FakeServer([docs[:1], docs[1:]], base=BASE)
        stats["n"] += 1
        try:
            with owned_requests(server):
                got = list(DataClient("tok-9").get_sessions_by_time("jpl", st, en, min_energy=me, timeseries=ts))
        except Exception as exc:
            guard(exc)
            rep("bytime:exception:%s" % type(exc).__name__, "get_sessions_by_time raised %r" % (exc,), repr(exc), None, ctx)
            continue
        if [d["sessionID"] for d in got] != [d["sessionID"] for d in docs]:
            rep("bytime:items", "yielded %s" % [d["sessionID"] for d in got], None, None, ctx)
        path, q = parse_query(server.log[0][1])
        qd = dict(q)
        fmt = lambda x: x.astimezone(timezone.utc).strftime("%a, %d %b %Y %H:%M:%S GMT")
        clauses = []
        if st is not None:
            clauses.append('connectionTime >= "%s"' % fmt(st))
        if en is not None:
            clauses.append('connectionTime <= "%s"' % fmt(en))
        got_clauses = [c for c in qd.get("where", "").split(" and ") if c]
        if me is not None:
            # the energy clause is compared as a NUMBER (how it is spelled is the client's business)
            ec = [c for c in got_clauses if c.startswith("kWhDelivered")]
            got_clauses = [c for c in got_clauses if not c.startswith("kWhDelivered")]
            ok_e = False
            if len(ec) == 1 and ec[0].startswith("kWhDelivered > "):
                try:
                    ok_e = float(ec[0][len("kWhDelivered > "):]) == float(me)
                except ValueError:
                    ok_e = False
            if not ok_e:
                rep("bytime:filter:min-energy", "where=%r: energy clause %s does not say kWhDelivered > %r" % (qd.get("where"), ec, me), ec, me, ctx)
        if got_clauses != clauses:
            rep("bytime:filter", "where=%r, expected clauses %s" % (qd.get("where"), clauses), got_clauses, clauses, ctx)
        if qd.get("sort") != "connectionTime":
            rep("bytime:sort", "sort=%r" % qd.get("sort"), qd.get("sort"), "connectionTime", ctx)
        if qd.get("max_results") != ("1" if ts else "100") or path != BASE + "sessions/jpl" + ("/ts/" if ts else ""):
            rep("bytime:endpoint-or-page-size", "request %s %s" % (path, q), None, None, ctx)
        stats["out"].add((st is None, en is None, me is None, ts))
        # count=True goes through a HEAD request and returns the server's total
        server = FakeServer([docs], base=BASE, total=41)
        with owned_requests(server):
            try:
                c = DataClient("tok-9").get_sessions_by_time("jpl", st, en, min_energy=me, count=True)
                if c != 41 or [m for m, _, _ in server.log] != ["HEAD"]:
                    rep("bytime:count", "count=True returned %r via %s" % (c, [m for m, _, _ in server.log]), c, 41, ctx)
            except Exception as exc:
                guard(exc)
                rep("bytime:count:exception", "count=True raised %r" % (exc,), repr(exc), None, ctx)
    stats["nt"] = True
    return viol, stats


def run_interleave(item, only=None):
    """two (or three) generators of ONE client advanced in every interleaving: each must yield exactly its own
    site's sessions in server order, following its own next links"""
    viol, stats = [], {"n": 0, "states": [], "out": set(), "nt": True}

    def rep(sig, what, o=None, e=None, ctx=None):
        if len(viol) < 20:
            viol.append((sig, what, o, e, ctx))

    sets_menu = [
        {"caltech": [2, 1], "jpl": [1, 2]},
        {"caltech": [1, 0, 1], "jpl": [2]},
        {"caltech": [1, 1], "jpl": [1, 1], "office001": [1, 1]},
    ]
    for sizes in sets_menu:
        sets, want = {}, {}
        for site, ps in sizes.items():
            docs = [dict(mkdoc(i), sessionID="%s-%d" % (site, i)) for i in range(sum(ps))]
            want[site] = [d["sessionID"] for d in docs]
            pages, k = [], 0
            for n in ps:
                pages.append(docs[k : k + n])
                k += n
            sets[site] = pages
        sites = sorted(sizes)
        # an interleaving = the order in which next() is called on the generators (each n_i + 1 times: the
        # last call returns StopIteration)
        counts = {s: len(want[s]) + 1 for s in sites}
        seq0 = [s for s in sites for _ in range(counts[s])]
        seen = set()
        for perm in itertools.permutations(seq0):
            if perm in seen:
                continue
            seen.add(perm)
            ctx = {"sizes": sizes, "order": list(perm)}
            if only is not None and only != ctx:
                continue
            server = MultiServer(copy.deepcopy(sets), base=BASE)
            client = DataClient("tok")
            got = {s: [] for s in sites}
            stats["n"] += 1
            try:
                with owned_requests(server):
                    gens = {s: client.get_sessions(s) for s in sites}
                    for s in perm:
                        try:
                            got[s].append(next(gens[s])["sessionID"])
                        except StopIteration:
                            got[s].append(None)
            except Exception as exc:
                guard(exc)
                rep("interleave:exception:%s" % type(exc).__name__, "interleaved generators raised %r" % (exc,), repr(exc), None, ctx)
                continue
            for s in sites:
                if got[s] != want[s] + [None]:
                    rep("interleave:wrong-items", "generators advanced in the order %s: the %s generator yielded %s, its server holds %s" % (list(perm), s, got[s], want[s]), got[s], want[s], ctx)
                    break
            stats["states"].append((tuple(sorted(sizes.items())), perm))
            stats["out"].add(("interleave", len(sites)))
            if len(seen) >= item.get("cap", 3000):
                break
    return viol, stats


def run_times(item, only=None):
    zone, tier = item["zone"], item["tier"]
    viol, stats = [], {"n": 0, "states": [], "out": set(), "nt": False, "ntset": set()}

    def rep(sig, what, o=None, e=None, ctx=None):
        if len(viol) < 20:
            viol.append((sig, what, o, e, ctx))

    ptz = pytz.timezone(zone)
    ztz = zoneinfo.ZoneInfo(zone)
    days = DST_DAYS[zone] + ORDINARY + (MONTH_ENDS if tier == "thorough" else [])
    utc = timezone.utc
    step = 30 if tier == "quick" else 10
    for (y, m, d) in days:
        base = datetime(y, m, d, 0, 0, 0, tzinfo=utc) - timedelta(hours=14)
        instants = []
        for k in range(0, (60 // step) * 52):  # 52 hours around the local day (the day before it included)
            for sec in (0, 59):
                instants.append(base + timedelta(minutes=step * k, seconds=sec))
        if only is not None and only.get("ts_day") is not None and list(only["ts_day"]) != [y, m, d]:
            continue
        if only is not None and only.get("ts_day") is None:
            instants = [datetime.fromisoformat(only["instant"])]
        strings = [x.strftime("%a, %d %b %Y %H:%M:%S GMT") for x in instants]
        # one document per instant (top-level fields) ...
        for x, s in zip(instants, strings):
            if only is not None and only.get("ts_day") is not None:
                break
            stats["n"] += 1
            doc = {"timezone": zone, "connectionTime": s, "disconnectTime": s, "doneChargingTime": None, "siteID": "0002", "note": "Mon, not a date", "kWhDelivered": 1.5}
            try:
                parse_dates(doc)
            except Exception as exc:
                guard(exc)
                rep("times:exception:%s" % type(exc).__name__, "parse_dates raised %r for %s" % (exc, s), repr(exc), None, {"instant": x.isoformat()})
                continue
            check_dt(doc["connectionTime"], x, ztz, rep, zone, stats, "field")
            if doc["disconnectTime"] != doc["connectionTime"] or doc["doneChargingTime"] is not None or doc["siteID"] != "0002" or doc["note"] != "Mon, not a date" or doc["kWhDelivered"] != 1.5:
                rep("times:other-fields", "parse_dates altered non-date fields or treated equal strings differently", None, None, {"instant": x.isoformat()})
            # round trip of the query formatter
            for aware in (x, x.astimezone(ptz), x.astimezone(ztz), x.replace(microsecond=250000)):
                back = parse_http_date(http_date(aware), ptz)
                # compare in UTC: PEP 495 makes inter-zone == False for ambiguous (fold) wall times
                if back.astimezone(utc) != aware.replace(microsecond=0).astimezone(utc):
                    rep("times:http_date-round-trip", "parse(http_date(%s)) = %s" % (aware.isoformat(), back.isoformat()), back.isoformat(), aware.replace(microsecond=0).isoformat(), {"instant": x.isoformat()})
                    break
            if http_date(x) != s:
                rep("times:http_date-format", "http_date(%s) = %r, RFC 1123 form is %r" % (x.isoformat(), http_date(x), s), http_date(x), s, {"instant": x.isoformat()})
        if (y, m, d) == days[0] and only is None:
            # the query formatter on instants that carry a fraction of a second, before and after 1970 (the second an
            # instant lies in does not depend on the epoch), in this zone
            for xx in (datetime(1969, 12, 31, 23, 59, 59, 500000, tzinfo=utc), datetime(1960, 2, 29, 12, 0, 0, 999999, tzinfo=utc), datetime(1970, 1, 1, 0, 0, 0, 1, tzinfo=utc), datetime(1945, 5, 8, 23, 1, 7, 250000, tzinfo=utc), datetime(2019, 3, 10, 9, 59, 59, 999999, tzinfo=utc)):
                for aware in (xx, xx.astimezone(ptz), xx.astimezone(ztz)):
                    stats["n"] += 1
                    back = parse_http_date(http_date(aware), ptz)
                    if back.astimezone(utc) != xx.replace(microsecond=0):
                        rep("times:http_date-round-trip:fraction-of-a-second", "parse(http_date(%s)) = %s" % (aware.isoformat(), back.isoformat()), back.isoformat(), xx.replace(microsecond=0).isoformat(), {"instant": xx.isoformat()})
                        break
        # ... and one time-series document carrying all of them
        if only is None or only.get("ts_day") is not None:
            tsctx = {"ts_day": [y, m, d]}
            doc = {"timezone": zone, "connectionTime": strings[0], "chargingCurrent": {"current": list(range(len(strings))), "timestamps": list(strings)}, "pilotSignal": {"pilot": [1], "timestamps": strings[:1]}, "other": {"values": [1, 2]}}
            parse_dates(doc)
            stats["n"] += 1
            tsl = doc["chargingCurrent"]["timestamps"]
            if len(tsl) != len(instants):
                rep("times:timeseries-length", "time series has %d timestamps after parsing, %d before" % (len(tsl), len(instants)), len(tsl), len(instants), tsctx)
            else:
                for x, g in zip(instants, tsl):
                    if not check_dt(g, x, ztz, rep, zone, stats, "timeseries", tsctx):
                        break
            if doc["chargingCurrent"]["current"] != list(range(len(strings))) or doc["other"] != {"values": [1, 2]}:
                rep("times:timeseries-values", "time-series values altered", None, None, tsctx)
            if not isinstance(doc["pilotSignal"]["timestamps"][0], datetime):
                rep("times:timeseries-not-parsed", "second time series not parsed", None, None, tsctx)
    stats["nt"] = bool(stats["ntset"])
    return viol, stats


def run_zonepair(item, only=None):
    """documents of zone A, zone B and zone A again carrying byte-identical timestamp strings (top-level fields, then
    time series): what one document was parsed to must not influence the next (state kept between calls)"""
    za, zb = item["zones"]
    viol, stats = [], {"n": 0, "states": [], "out": set(), "nt": False, "ntset": set()}

    def rep(sig, what, o=None, e=None, ctx=None):
        if len(viol) < 20:
            viol.append((sig.replace("times:", "times:two-zones:", 1), what + " (documents of %s and %s parsed alternately)" % (za, zb), o, e, ctx))

    utc = timezone.utc
    days = (DST_DAYS[za][:2] + DST_DAYS[zb][:2] + ORDINARY[:1]) if item["tier"] == "quick" else (DST_DAYS[za] + DST_DAYS[zb] + ORDINARY)
    for (y, m, d) in days:
        base = datetime(y, m, d, 0, 0, 0, tzinfo=utc) - timedelta(hours=14)
        instants = [base + timedelta(minutes=30 * k, seconds=7) for k in range(0, 2 * 52)]
        if only is not None:
            if only.get("ts_day") is not None and list(only["ts_day"]) != [y, m, d]:
                continue
            if only.get("ts_day") is None:
                instants = [datetime.fromisoformat(only["instant"])]
        strings = [x.strftime("%a, %d %b %Y %H:%M:%S GMT") for x in instants]
        if only is None or only.get("ts_day") is None:
            for x, s_ in zip(instants, strings):
                for z in (za, zb, za):
                    stats["n"] += 1
                    doc = {"timezone": z, "connectionTime": s_, "disconnectTime": s_, "doneChargingTime": None}
                    try:
                        parse_dates(doc)
                    except Exception as exc:
                        guard(exc)
                        rep("times:exception:%s" % type(exc).__name__, "parse_dates raised %r for %s" % (exc, s_), repr(exc), None, {"instant": x.isoformat()})
                        break
                    ok = check_dt(doc["connectionTime"], x, zoneinfo.ZoneInfo(z), rep, z, stats, "field") and check_dt(doc["disconnectTime"], x, zoneinfo.ZoneInfo(z), rep, z, stats, "field")
                    if not ok:
                        break
        if only is None or only.get("ts_day") is not None:
            tsctx = {"ts_day": [y, m, d]}
            for z in (za, zb, za):
                stats["n"] += 1
                doc = {"timezone": z, "connectionTime": strings[0], "chargingCurrent": {"current": list(range(len(strings))), "timestamps": list(strings)}}
                parse_dates(doc)
                ok = True
                for x, g in zip(instants, doc["chargingCurrent"]["timestamps"]):
                    if not check_dt(g, x, zoneinfo.ZoneInfo(z), rep, z, stats, "timeseries", tsctx):
                        ok = False
                        break
                if not ok:
                    break
    stats["nt"] = True
    stats["out"].add(("zonepair", za, zb, len(viol)))
    return viol, stats


def check_dt(got, instant, ztz, rep, zone, stats, where, ctx=None):
    ctx = ctx or {"instant": instant.isoformat()}
    if not isinstance(got, datetime) or got.tzinfo is None or got.utcoffset() is None:
        rep("times:%s:not-aware" % where, "parsed value %r is not an aware datetime" % (got,), repr(got), None, ctx)
        return False
    want_off = instant.astimezone(ztz).utcoffset()
    near_dst = instant.astimezone(ztz).utcoffset() != (instant - timedelta(hours=2)).astimezone(ztz).utcoffset() or instant.astimezone(ztz).utcoffset() != (instant + timedelta(hours=2)).astimezone(ztz).utcoffset()
    if near_dst:
        stats["ntset"].add((zone, instant.isoformat()))
    if got.astimezone(timezone.utc).replace(tzinfo=None) != instant.replace(tzinfo=None):
        rep("times:%s:instant%s" % (where, ":near-dst" if near_dst else ""), "%s in %s parsed to %s, a different instant" % (instant.isoformat(), zone, got.isoformat()), got.isoformat(), instant.isoformat(), ctx)
        return False
    if got.utcoffset() != want_off:
        rep("times:%s:zone-offset%s" % (where, ":near-dst" if near_dst else ""), "%s parsed with offset %s, %s is at %s then" % (instant.isoformat(), got.utcoffset(), zone, want_off), str(got.utcoffset()), str(want_off), ctx)
        return False
    return True


def run_longchain(item, only=None):
    """one very long chain of pages (a time-series query serves ONE session per page): every link is followed, whatever
    the length of the chain - beyond any fixed depth of the client's own call stack"""
    viol, stats = [], {"n": 1, "states": [], "out": set(), "nt": True}
    n, every = item["pages"], item["empty_every"]
    pages, docs = [], []
    for i in range(n):
        if every and i % every == every - 1:
            pages.append([])
        else:
            d = mkdoc(len(docs))
            docs.append(d)
            pages.append([d])
    server = FakeServer(pages, base=BASE)
    got = []
    try:
        with owned_requests(server):
            for d in DataClient("tok-123").get_sessions("jpl", timeseries=True):
                got.append(d.get("_id"))
                if len(got) > len(docs) + 3:
                    break
    except Exception as exc:
        guard(exc)
        viol.append(("longchain:exception:%s" % type(exc).__name__, "a chain of %d pages: get_sessions raised %r after %d of %d sessions (%d requests)" % (n, exc, len(got), len(docs), len(server.log)), len(got), len(docs), None))
        return viol, stats
    stats["states"].append(("longchain", n, len(server.log), len(got)))
    stats["out"].add(("longchain", len(got) == len(docs)))
    if got != [d["_id"] for d in docs]:
        viol.append(("longchain:items", "a chain of %d pages: %d sessions yielded, the server holds %d" % (n, len(got), len(docs)), len(got), len(docs), None))
    if len(server.log) != n:
        viol.append(("longchain:requests", "a chain of %d pages: %d requests sent" % (n, len(server.log)), len(server.log), n, None))
    return viol, stats


def run_faults(item, only=None):
    """fault sequences: the transport drops the connection on chosen requests (every request index x 1..3 consecutive
    faults). Whether the client gives up (the fault escapes the generator) or tries again is its business; what it has
    yielded is always a duplicate-free prefix of the server's order, and if no fault escapes, it is everything."""
    import requests as _real

    viol, stats = [], {"n": 0, "states": [], "out": set(), "nt": False}
    sizes = item["sizes"]
    docs = [mkdoc(i) for i in range(sum(sizes))]
    pages, k = [], 0
    for sz in sizes:
        pages.append(docs[k : k + sz])
        k += sz
    want = [d["_id"] for d in docs]
    for first in range(len(sizes)):
        for nf in (1, 2, 3):
            ctx = {"fail_first": first, "faults": nf}
            if only is not None and only != ctx:
                continue
            server = FakeServer(copy.deepcopy(pages), base=BASE, fail_at=range(first, first + nf))
            got, escaped = [], None
            stats["n"] += 1
            try:
                with owned_requests(server):
                    for d in DataClient("tok-123").get_sessions("caltech"):
                        got.append(d.get("_id"))
                        if len(got) > len(want) + 3:
                            break
            except _real.exceptions.RequestException as exc:
                escaped = exc
            except Exception as exc:
                guard(exc)
                viol.append(("faults:exception:%s" % type(exc).__name__, "pages %s, connection dropped on request(s) %d..%d: %r" % (sizes, first, first + nf - 1, exc), repr(exc), None, ctx))
                continue
            stats["states"].append((tuple(sizes), first, nf, len(got), escaped is not None))
            stats["out"].add(("faults", escaped is not None, len(got) == len(want)))
            if got != want[: len(got)]:
                viol.append(("faults:%s" % ("duplicate" if len(set(got)) < len(got) else "order"), "pages %s, connection dropped on request(s) %d..%d: yielded %s, server order is %s" % (sizes, first, first + nf - 1, got, want), got, want, ctx))
            elif escaped is None and got != want:
                viol.append(("faults:lost", "pages %s, connection dropped on request(s) %d..%d and no error surfaced: yielded %s of %s" % (sizes, first, first + nf - 1, got, want), got, want, ctx))
    stats["nt"] = len(sizes) >= 3
    return viol, stats


def execute(item, only=None):
    return {"faults": run_faults, "longchain": run_longchain, "pages": run_pages, "bytime": run_bytime, "times": run_times, "interleave": run_interleave, "zonepair": run_zonepair}[item["block"]](item, only)


def run(item):
    acc = Acc()
    viol, st = execute(item)
    acc.evals += st["n"]
    acc.transitions += len(st["states"])
    for s in st["states"]:
        acc.state(s)
    for o in st["out"]:
        acc.outcome(o)
    if item["block"] in ("times", "zonepair"):
        for x in st["ntset"]:
            acc.nt(x)
        acc.outcome(("times", item.get("zone") or tuple(item["zones"])))
    elif st["nt"]:
        acc.nt((item["block"], tuple(item.get("sizes", ()))))
    acc.count("cases_" + item["block"], st["n"])
    for sig, what, o, e, ctx in viol:
        acc.violation(sig, what, dict(item, only=ctx), o, e)
    acc.sample(item, cap=3)
    return acc


def replay(scn):
    item = {k: v for k, v in scn.items() if k != "only"}
    viol, _ = execute(item, only=scn.get("only"))
    return [{"signature": v[0], "what": v[1], "observed": v[2], "expected": v[3]} for v in viol]
