"""C03 - physical bounds: 0 <= rate <= pilot, power <= max, charge monotone and <= capacity.

(a) battery level: every battery configuration of a menu x initial-SoC lattice x voltage x
    period; every pilot sequence up to length L; at every charge call every noise draw of
    a finite alphabet through the owned numpy.random.normal seam (CHOICE DFS, deviation
    bound on non-zero draws).
(b) simulator level: every cell of every run of a scenario space: 0 <= charging_rates <= pilot_signals.
"""
from __future__ import annotations

import itertools

from acnportal.acnsim.models import Battery, Linear2StageBattery

from mc.core import Acc, guard
from mc import simspace as S
from mc.engines import explore_choices
from mc.props import c02

ID = "C03"
LEVEL = "exploration"
TECHNIQUE = "exhaustive enumeration of pilot sequences x owned noise draws (stateless DFS with deviation bound) on the real battery classes over a boundary-aligned lattice; plus every cell of bounded simulations"
RULE = (
    "battery menu (ideal; two-stage x continuous/stepwise x sigma x transition SoC) x initial-SoC lattice (0, mid, transition +-1e-3, .999, 1) x V x period; "
    "all pilot sequences of length<=L over {0,1,6,16,32,80} A plus charge/reset-operation/charge sandwiches (reset(), reset(cap/2), refused reset(1.1 cap)); at each charge call every noise draw in {0,+-0.1,+-1,+-3} sigma with <=D non-zero draws; "
    "non-trivial = execution in which some call delivered a rate strictly between 0 and the pilot"
)
ASSUMPTIONS = [
    "lattice, not continuum: values between lattice points are not covered",
    "relative slack 1e-9 on every inequality; negative pilots are outside the property; the pilot alphabet holds a vanishing positive pilot (1e-15 A)",
    "noise enters only through numpy.random.normal inside battery.py (owned seam; any other numpy.random use raises)",
]
CHUNK = 24
PILOTS = (0, 1e-15, 1, 6, 16, 32, 80)  # 1e-15 A: a vanishing but positive pilot (what a float remainder of a demand looks like)
DRAWS = (0.0, 0.1, -0.1, 1.0, -1.0, 3.0, -3.0)
RESETS = ("reset", "reset-half", "reset-over")


def bounds(tier, seed):
    if tier == "thorough":
        return {"L": 3, "noise_deviations": 2, "pilots": list(PILOTS), "draws_in_sigma": list(DRAWS)}
    return {"L": 2, "noise_deviations": 1, "pilots": list(PILOTS), "draws_in_sigma": list(DRAWS)}


def battery_menu(tier):
    caps = (10.0,) if tier == "quick" else (10.0, 60.0)
    out = []
    for cap in caps:
        for pmax in (3.3, 7.0):
            out.append({"kind": "ideal", "cap": cap, "pmax": pmax})
            for calc in ("continuous", "stepwise"):
                for sigma in (0, 0.5, 2.0):
                    for tsoc in (0.0, 0.5, 0.8, 0.95):
                        out.append({"kind": "l2", "calc": calc, "sigma": sigma, "tsoc": tsoc, "cap": cap, "pmax": pmax})
    return out


def soc_lattice(cfg):
    t = cfg.get("tsoc", 0.8)
    pts = {0.0, 0.5, 0.999, 1.0, t}
    if t - 1e-3 > 0:
        pts.add(t - 1e-3)
    if t + 1e-3 < 1:
        pts.add(t + 1e-3)
    return sorted(pts)


def space(tier, seed):
    items = []
    b = bounds(tier, seed)
    for cfg in battery_menu(tier):
        for soc in soc_lattice(cfg):
            for v in (120, 208, 240):
                # 8 and 45 minutes do not divide an hour (quick: on the 208 V column only)
                for period in (1, 5, 60) + ((8, 45) if (tier == "thorough" or v == 208) else ()):
                    items.append({"part": "battery", "cfg": cfg, "soc": soc, "v": v, "period": period, "L": b["L"], "D": b["noise_deviations"]})
    # (b) simulation cells: reuse the ledger scenario space on the heterogeneous network
    for scn in c02.space("quick", seed):
        if scn.get("block") or scn["net"] != "N2" or scn["sk"] not in ("max1", "alt", "unc", "fcfs", "near"):
            continue
        if tier == "quick" and ((scn["period"] == 5 and scn["sk"] != "near") or len(scn["sessions"]) > 2):
            continue
        items.append({"part": "sim", "scn": scn})
        if scn["sk"] == "max1" and scn["period"] != 5:
            # the same sessions simulated a second time with the SAME (reset) EV objects and a pulsed scheduler
            items.append({"part": "sim", "scn": dict(scn, rerun=True)})
    # (c) cells of simulations on a StochasticNetwork (stations assigned at run time, EVs swapped out early)
    for it in c02.stoch_items("quick"):
        items.append({"part": "stoch", "item": it})
    return items


def mk(cfg, soc):
    init = soc * cfg["cap"]
    if cfg["kind"] == "ideal":
        return Battery(cfg["cap"], init, cfg["pmax"])
    return Linear2StageBattery(cfg["cap"], init, cfg["pmax"], noise_level=cfg["sigma"], transition_soc=cfg["tsoc"], charge_calculation=cfg["calc"])


def run_sequence(cfg, soc, v, period, pilots, chooser, viol, alt=False):
    """one execution: a fresh battery, the pilot sequence, noise decided by the chooser; with alt the
    period length alternates between `period` and the next of (1, 5, 60) from call to call on the SAME object"""
    b = mk(cfg, soc)
    base_period = period
    other = {1: 5, 5: 60, 60: 1}.get(period, period * 3)
    cap, pmax = cfg["cap"], cfg["pmax"]
    interior = False

    def draw():
        return DRAWS[chooser.choose(len(DRAWS))]

    with S.owned_noise(draw):
        for step, pilot in enumerate(pilots):
            period = other if (alt and step % 2 == 1) else base_period
            before = b._current_charge
            if isinstance(pilot, str):
                # reset operations between charges: a plain reset, a reset to half capacity, and a reset the
                # battery must refuse (above capacity) - a refused call leaves the battery as it was
                tag = "%s:%s" % (cfg["kind"] if cfg["kind"] == "ideal" else cfg["calc"], "noise" if cfg.get("sigma", 0) > 0 else "nonoise")
                try:
                    if pilot == "reset":
                        b.reset()
                    elif pilot == "reset-half":
                        b.reset(0.5 * cap)
                    else:
                        b.reset(1.1 * cap)
                        viol.append(("reset-above-capacity-accepted:" + tag, "step %d: reset(1.1*capacity) was not refused" % step, "accepted", "ValueError"))
                except ValueError:
                    if pilot != "reset-over":
                        viol.append(("reset-refused:" + tag, "step %d: %s raised ValueError" % (step, pilot), pilot, None))
                    elif b._current_charge != before:
                        viol.append(("refused-reset-changed-charge:" + tag, "step %d: refused reset(1.1*capacity) left stored charge %.9g (was %.9g, capacity %.9g)" % (step, b._current_charge, before, cap), b._current_charge, before))
                if b._current_charge > cap * (1 + 1e-9):
                    viol.append(("charge-above-capacity:" + tag, "step %d after %s: stored charge %.9g > capacity %.9g" % (step, pilot, b._current_charge, cap), b._current_charge, cap))
                continue
            try:
                rate = b.charge(pilot, v, period)
            except Exception as exc:  # no failure is documented for these inputs
                guard(exc)
                viol.append(("exception:%s" % type(exc).__name__, "charge(%s,%s,%s) raised %r" % (pilot, v, period, exc), repr(exc), None))
                return interior
            after = b._current_charge
            power = b.current_charging_power
            tag = "%s:%s" % (cfg["kind"] if cfg["kind"] == "ideal" else cfg["calc"], "noise" if cfg.get("sigma", 0) > 0 else "nonoise")
            ctx = "step %d pilot %s A (V=%s, T=%s min, soc0=%s)" % (step, pilot, v, period, soc)
            if rate < -1e-9 * max(1.0, pilot):
                viol.append(("rate-negative:" + tag, "%s: actual rate %.9g A < 0" % (ctx, rate), rate, ">=0"))
            if rate > pilot * (1 + 1e-9) + 1e-9:
                viol.append(("rate-above-pilot:" + tag, "%s: actual rate %.9g A > pilot" % (ctx, rate), rate, "<=%s" % pilot))
            if power > pmax * (1 + 1e-9):
                viol.append(("power-above-max:" + tag, "%s: power %.9g kW > max %.9g" % (ctx, power, pmax), power, pmax))
            if after < before - 1e-9 * cap:
                viol.append(("charge-decreased:" + tag, "%s: stored charge fell from %.9g to %.9g kWh" % (ctx, before, after), after, before))
            if after > cap * (1 + 1e-9):
                viol.append(("charge-above-capacity:" + tag, "%s: stored charge %.9g > capacity %.9g" % (ctx, after, cap), after, cap))
            if 1e-6 < rate < pilot - 1e-6:
                interior = True
    return interior


def run_battery(item, acc):
    cfg, soc, v, period = item["cfg"], item["soc"], item["v"], item["period"]
    noisy = cfg.get("sigma", 0) > 0
    seqs = [(L, pilots) for L in range(1, item["L"] + 1) for pilots in itertools.product(PILOTS, repeat=L)]
    # reset sandwiches: charge, one reset operation (plain / to half / refused), charge again on the same object
    seqs += [(3, (p1, r, p2)) for p1 in (16, 80) for r in RESETS for p2 in PILOTS]
    if True:
        for L, pilots in seqs:
          for alt in ((False, True) if L >= 2 else (False,)):
            def body(ch):
                viol = []
                interior = run_sequence(cfg, soc, v, period, pilots, ch, viol, alt=alt)
                return viol, interior

            for choices, res in explore_choices(body, bound=item["D"] if noisy else 0):
                viol, interior = res
                acc.evals += 1
                acc.transitions += L
                if interior:
                    acc.nt((cfg["kind"], cfg.get("calc"), cfg.get("sigma"), cfg.get("tsoc"), cfg["pmax"], soc, v, period, pilots, tuple(choices), alt))
                acc.outcome((len(viol), interior, L))
                for sig, what, o, e in viol:
                    acc.violation(sig, what, {"part": "battery", "cfg": cfg, "soc": soc, "v": v, "period": period, "pilots": list(pilots), "choices": list(choices), "alt": alt}, o, e)
    acc.sample({"battery": cfg, "soc0": soc, "V": v, "period": period, "pilot_sequences": "all of length<=%d over %s" % (item["L"], list(PILOTS))}, cap=2)


def check_sim(scn, viol):
    with S.owned_noise(S.cyclic(scn.get("noise") or [0.0])):
        tr = S.run_sim(scn)
        if scn.get("rerun") and tr.error is None:
            scn2 = dict(scn, sched={"kind": "script", "prog": {"rule": "zeromax", "len": 1}}, k=1)
            tr = S.run_sim(scn2, reuse=tr.evs)
    if tr.error is not None:
        viol.append(("sim-exception:%s" % type(tr.error).__name__, "run() raised %r" % tr.error, repr(tr.error), None))
        return tr
    cr, ps = tr.sim.charging_rates, tr.sim.pilot_signals
    ids = tr.sim.network.station_ids
    kinds = {s["st"] + str(t): s["kind"] for s in scn["sessions"] for t in range(s["a"], s["d"])}
    for i in range(cr.shape[0]):
        for t in range(cr.shape[1]):
            p = ps[i, t] if t < ps.shape[1] else 0.0
            kind = kinds.get(ids[i] + str(t), "vacant")
            if cr[i, t] < -1e-9:
                viol.append(("cell-rate-negative:" + kind, "charging_rates[%s,%d]=%.9g < 0" % (ids[i], t, cr[i, t]), float(cr[i, t]), ">=0"))
                return tr
            if cr[i, t] > p * (1 + 1e-9) + 1e-9:
                viol.append(("cell-rate-above-pilot:" + kind, "charging_rates[%s,%d]=%.9g > pilot %.9g" % (ids[i], t, cr[i, t], p), float(cr[i, t]), float(p)))
                return tr
    return tr


def check_stoch(it, choices, viol):
    from mc.engines import Chooser

    sim, net, evs, log, err = c02.stoch_once(it, Chooser(choices))
    if err is not None:
        viol.append(("stoch-exception:%s" % type(err).__name__, "run() raised %r" % (err,), repr(err), None))
        return sim, log
    cr, ps = sim.charging_rates, sim.pilot_signals
    for i, sid in enumerate(net.station_ids):
        for t in range(cr.shape[1]):
            p = ps[i, t] if t < ps.shape[1] else 0.0
            if cr[i, t] < -1e-9 or cr[i, t] > p * (1 + 1e-9) + 1e-9:
                viol.append(("stoch-cell-rate-outside-0-pilot", "StochasticNetwork run: charging_rates[%s,%d]=%.9g, pilot %.9g" % (sid, t, cr[i, t], p), float(cr[i, t]), float(p)))
                return sim, log
    return sim, log


def run_stoch(item, acc):
    it = item["item"]

    def body(ch):
        viol = []
        sim, net, evs, log, err = c02.stoch_once(it, ch)
        return list(ch.choices)

    for choices, _ in explore_choices(body):
        viol = []
        sim, log = check_stoch(it, choices, viol)
        acc.evals += 1
        acc.transitions += len(log)
        acc.outcome(("stoch", len(viol), round(float(sim.peak), 2)))
        if float(sim.peak) > 0:
            acc.nt(("stoch", tuple(it["types"]), it["ns"], it["early"], tuple(choices)))
        for sig, what, o, e in viol:
            acc.violation(sig, what, {"part": "stoch", "item": it, "choices": list(choices)}, o, e)


def run(item):
    acc = Acc()
    if item["part"] == "stoch":
        run_stoch(item, acc)
        return acc
    if item["part"] == "battery":
        run_battery(item, acc)
    else:
        viol = []
        tr = check_sim(item["scn"], viol)
        acc.evals += 1
        acc.transitions += len(tr.periods)
        acc.outcome(("sim", len(viol), round(float(tr.sim.peak), 2)))
        if float(tr.sim.peak) > 0:
            acc.nt(("sim", repr(item["scn"])))
        for sig, what, o, e in viol:
            acc.violation(sig, what, item, o, e)
    return acc


def replay(scn):
    viol = []
    if scn["part"] == "battery":
        from mc.engines import Chooser

        run_sequence(scn["cfg"], scn["soc"], scn["v"], scn["period"], scn["pilots"], Chooser(scn["choices"]), viol, alt=bool(scn.get("alt")))
    elif scn["part"] == "stoch":
        check_stoch(scn["item"], scn.get("choices") or [], viol)
    else:
        check_sim(scn["scn"], viol)
    return [{"signature": s, "what": w, "observed": o, "expected": e} for s, w, o, e in viol]
