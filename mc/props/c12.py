"""C12 - constraint matrix, limits and names stay aligned under add/remove/update.

Explicit-state BFS over operation sequences on the REAL ChargingNetwork
(register_evse / add_constraint / remove_constraint / update_constraint, expressions built
with the real Current operators), from every registration order of the stations. A
row-list reference model (dict arithmetic for the expression semantics, cmath for the
aggregate currents) is compared in EVERY reached state: constraints_as_df(), magnitudes,
constraint_index and constraint_current for every subset/order of constraint names x
ascending subsets of time indices.
"""
from __future__ import annotations

import cmath
import copy
import itertools
import math
import warnings

import numpy as np

from acnportal.acnsim.network import ChargingNetwork, Current
from acnportal.acnsim.models.evse import EVSE

from mc.core import Acc, guard

ID = "C12"
LEVEL = "model_checking"
TECHNIQUE = (
    "explicit-state BFS over ChargingNetwork constraint operations (expressions evaluated with the real Current operators) from every station registration order; "
    "row-list reference model + cmath aggregate currents compared in every state"
)
RULE = (
    "BFS over register_evse/add_constraint(expr,limit,name|None)/remove_constraint(name)/update_constraint(name,expr,limit,new_name|None); expr from an alphabet of "
    "Current expressions (atoms in str/list/dict form, +, -, scalar*expr, expr*scalar and their compositions); state = (station order, rows as (name, coefficients, limit)); "
    "every state: full table + constraint_current for every ordered subset of names x time-index subsets; non-trivial = state with >=2 constraints of which one has mixed-sign or fractional coefficients"
)
ASSUMPTIONS = [
    "stations A,B,C(,D) with distinct phase angles/voltages; expression alphabet of 25 shapes (builtin and numpy scalars); limits are functions of the operation (finite state space)",
    "time_indices are given in ascending order (for those 'as requested' and 'network order' coincide); a name may be taken more than once over (name, name_v2, then whatever the library invents - or a refusal that leaves the table untouched): two rows may then carry the same name, removal by name takes the first",
    "registering an EVSE after ALL constraints were removed again is left unspecified by the property: refusal and acceptance are both allowed, the state must stay consistent",
    "bounded depth; canonical state merges operation sequences leading to equal (station order, rows): the network's future depends on nothing else",
]
CHUNK = 2

ST = {"A": (208, 30), "B": (240, -90), "C": (208, 150), "D": (277, 0)}
SCHED = {"A": [8.0, 0.0, 13.5], "B": [16.0, 6.0, 0.0], "C": [3.25, 32.0, 7.0], "D": [1.0, 2.0, 3.0]}

# expression ASTs -----------------------------------------------------------
A = ["atom", "str", "A"]
BC = ["atom", "list", ["B", "C"]]
CA = ["atom", "list", ["C", "A"]]
D1 = ["atom", "dict", {"A": 0.5, "C": -1}]
D2 = ["atom", "dict", {"C": 2, "B": -0.25, "A": 1}]
EXPRS = [
    A,
    BC,
    CA,
    D1,
    D2,
    ["add", A, BC],
    ["sub", BC, A],
    ["sub", A, D1],
    ["lmul", 2, BC],
    ["rmul", BC, 0.25],
    ["add", ["lmul", 2, A], BC],
    ["add", A, ["lmul", 2, BC]],
    ["sub", ["lmul", 2, BC], A],
    ["sub", A, ["lmul", 2, BC]],
    ["lmul", 0.25, ["sub", CA, BC]],
    ["add", ["add", A, BC], D1],
    ["sub", ["sub", A, BC], D1],
    ["sub", D2, D2],
    ["add", ["lmul", 0.25, ["sub", A, BC]], ["rmul", D1, 0.25]],
    ["sub", ["rmul", CA, 3], ["lmul", 0.5, D2]],
    # operands stay what they were: the operand x took part in a sum with an EMPTY Current (both sides, and as the
    # start value of sum()), the RESULT was scaled in place - the constraint is then built from x itself
    ["reuse", BC, "x+empty"],
    ["reuse", D1, "empty+x"],
    ["reuse", CA, "sum([x], empty)"],
    # scalars that are not builtin numbers (taken out of numpy arrays)
    ["sub", ["lmul", {"np": "int64", "v": 2}, BC], A],
    ["add", A, ["rmul", BC, {"np": "float64", "v": 0.25}]],
    # both operands cover the SAME station set, listed in different orders, with coefficients that are not symmetric
    # under that reordering (alignment is by station, not by position)
    ["sub", D2, ["atom", "dict", {"A": 3, "B": 5, "C": 7}]],
    ["add", CA, ["lmul", 2, D1]],
]


def scalar(k):
    """builtin number, or a numpy scalar described as {"np": dtype, "v": value} (JSON-able alphabet)"""
    if isinstance(k, dict):
        return getattr(np, k["np"])(k["v"])
    return k


def scalar_value(k):
    return float(k["v"]) if isinstance(k, dict) else k
REDUCED = [0, 6, 12, 14, 3]  # reduced alphabet for the deepest level
WITH_D = ["atom", "dict", {"D": 1, "A": -1}]


def ev_real(e):
    k = e[0]
    if k == "atom":
        if e[1] == "str":
            return Current(e[2])
        if e[1] == "list":
            return Current(list(e[2]))
        return Current(dict(e[2]))
    if k == "add":
        return ev_real(e[1]) + ev_real(e[2])
    if k == "sub":
        return ev_real(e[1]) - ev_real(e[2])
    if k == "lmul":
        return scalar(e[1]) * ev_real(e[2])
    if k == "rmul":
        return ev_real(e[1]) * scalar(e[2])
    if k == "reuse":
        x = ev_real(e[1])
        r = x + Current() if e[2] == "x+empty" else (Current() + x if e[2] == "empty+x" else sum([x], Current()))
        r *= 3  # in place, on the RESULT
        r["A"] = 99.0
        return x
    raise ValueError(e)


def ev_model(e):
    k = e[0]
    if k == "atom":
        if e[1] == "str":
            return {e[2]: 1.0}
        if e[1] == "list":
            return {s: 1.0 for s in e[2]}
        return {s: float(c) for s, c in e[2].items()}
    if k in ("add", "sub"):
        a, b = ev_model(e[1]), ev_model(e[2])
        sg = 1.0 if k == "add" else -1.0
        out = dict(a)
        for s, c in b.items():
            out[s] = out.get(s, 0.0) + sg * c
        return out
    if k == "lmul":
        return {s: scalar_value(e[1]) * c for s, c in ev_model(e[2]).items()}
    if k == "rmul":
        return {s: scalar_value(e[2]) * c for s, c in ev_model(e[1]).items()}
    if k == "reuse":
        return ev_model(e[1])
    raise ValueError(e)


def shape(e):
    """structural class of an expression (for signatures)"""
    k = e[0]
    if k == "atom":
        return "x"
    if k in ("add", "sub"):
        return "(%s%s%s)" % (shape(e[1]), "+" if k == "add" else "-", shape(e[2]))
    if k == "reuse":
        return "operand-after-%s-was-scaled-in-place" % e[2]
    if k == "lmul":
        return "%s*%s" % ("npk" if isinstance(e[1], dict) else "k", shape(e[2]))
    return "%s*%s" % (shape(e[1]), "npk" if isinstance(e[2], dict) else "k")


# ----------------------------------------------------------------------------
class State:
    __slots__ = ("net", "stations", "rows", "ever")

    def __init__(self, net, stations, rows, ever=False):
        self.net, self.stations, self.rows, self.ever = net, stations, rows, ever

    def copy(self):
        return State(copy.deepcopy(self.net), list(self.stations), [(n, dict(c), l) for n, c, l in self.rows], self.ever)

    def canon(self):
        return (tuple(self.stations), tuple((n, tuple(sorted((s, round(c, 12)) for s, c in co.items() if c != 0)), l) for n, co, l in self.rows), self.ever)


def fresh(order):
    net = ChargingNetwork()
    for s in order:
        net.register_evse(EVSE(s, max_rate=32), ST[s][0], ST[s][1])
    return State(net, list(order), [])


def ops_for(st: State, exprs, full):
    ops = []
    names = [r[0] for r in st.rows]
    for i in exprs:
        ops.append(["add", i, None])
        if full or i in REDUCED[:3]:
            ops.append(["add", i, "c1"])
    for n in names:
        ops.append(["rem", n])
    ops.append(["rem", "nope"])
    upd = REDUCED if not full else [0, 6, 12, 14, 3, 10, 15]
    for n in names:
        for i in upd:
            ops.append(["upd", n, i, None])
        ops.append(["upd", n, upd[1], "r"])
        if len(names) > 1:
            ops.append(["upd", n, upd[0], names[0] if names[0] != n else names[1]])  # rename onto an existing name
    ops.append(["upd", "nope", 0, None])
    ops.append(["reg"])
    ops.append(["addD"])  # constraint naming a station that may be unregistered
    return ops


def too_deep(rows, name):
    """the name the library would give is already taken TWICE over (name and name_v2 both exist): the documented
    rule covers one duplicate; deeper ones are outside the alphabet (such an operation is not enabled)"""
    names = [r[0] for r in rows]
    if name is None:
        # an UNNAMED constraint: the caller never chose a name, the positional one the library invents may collide
        # after removals - also twice (two rows then carry the same invented name; rows, limits and names must still
        # line up position by position)
        return False
    cand = name
    return cand in names and (cand + "_v2") in names


def model_remove(rows, name):
    """the first constraint carrying that name (names invented for unnamed constraints may occur twice)"""
    for k, r in enumerate(rows):
        if r[0] == name:
            return rows[:k] + rows[k + 1 :]
    return rows


def model_add(rows, name, coefs, limit, real_last=None):
    """`real_last`: the name the library gave to the row it appended. Where the CALLER chose a fresh name, that name is
    demanded; where the library had to invent one (unnamed constraint, or the chosen name was taken), whatever string it
    invented is taken over - the property fixes the alignment of rows, limits and names, not the naming scheme"""
    invented = name is None or name in [r[0] for r in rows]
    if name is None:
        name = "_const_%d" % len(rows)
    if name in [r[0] for r in rows]:
        name += "_v2"
    if invented and isinstance(real_last, str):
        name = real_last
    rows.append((name, coefs, limit))


def step(st: State, op, viol):
    s = st.copy()
    net = s.net
    kind = op[0]
    with warnings.catch_warnings():
        warnings.simplefilter("ignore")
        try:
            if kind in ("add", "addD"):
                e = EXPRS[op[1]] if kind == "add" else WITH_D
                name = op[2] if kind == "add" else None
                limit = 10.0 + (op[1] if kind == "add" else 77)
                coefs = ev_model(e)
                unknown = [x for x in coefs if x not in s.stations]
                try:
                    cur = ev_real(e)
                except Exception as exc:
                    guard(exc)
                    viol.append(("algebra:exception:%s" % shape(e), "evaluating the Current expression %s raised %r" % (e, exc), repr(exc), coefs))
                    return None
                if cur is None:
                    viol.append(("algebra:none:%s" % shape(e), "the Current expression %s evaluates to None" % (e,), None, coefs))
                    return None
                if unknown:
                    before = observe(net)
                    try:
                        net.add_constraint(cur, limit, name)
                        viol.append(("add:unknown-station-accepted", "constraint over unregistered %s accepted" % unknown, None, None))
                        return None
                    except KeyError:
                        if observe(net) != before:
                            viol.append(("add:unknown-station-changed-state", "refused constraint changed the table", None, None))
                        return s
                n_before = len(net.constraint_index)
                if too_deep(s.rows, name):
                    # name and name_v2 are both taken: the documented rule covers one duplicate. The library may refuse
                    # (table untouched) or invent whatever name it likes (taken over below); rows, limits and names must
                    # stay aligned either way - also when two rows end up with the same name
                    before = observe(net)
                    try:
                        net.add_constraint(cur, limit, name)
                    except Exception as exc:
                        guard(exc)
                        if observe(net) != before:
                            viol.append(("add:refused-duplicate-changed-state", "a refused add_constraint under a name taken twice changed the table", None, None))
                            return None
                        return s
                else:
                    net.add_constraint(cur, limit, name)
                model_add(s.rows, name, coefs, limit, net.constraint_index[-1] if len(net.constraint_index) == n_before + 1 else None)
                s.ever = True
                tag = shape(e)
            elif kind == "rem":
                n = op[1]
                if n not in [r[0] for r in s.rows]:
                    before = observe(net)
                    try:
                        net.remove_constraint(n)
                        viol.append(("remove:unknown-accepted", "remove_constraint(%r) did not raise" % n, None, None))
                        return None
                    except KeyError:
                        if observe(net) != before:
                            viol.append(("remove:unknown-changed-state", "refused removal changed the table", None, None))
                        return s
                net.remove_constraint(n)
                s.rows = model_remove(s.rows, n)
                tag = "rem"
            elif kind == "upd":
                n, i, new = op[1], op[2], op[3]
                e = EXPRS[i]
                limit = 50.0 + i if new != "r" else 0.0  # the renaming update also sets a limit of exactly 0 A
                coefs = ev_model(e)
                try:
                    cur = ev_real(e)
                except Exception as exc:
                    guard(exc)
                    viol.append(("algebra:exception:%s" % shape(e), "evaluating %s raised %r" % (e, exc), repr(exc), coefs))
                    return None
                if cur is None:
                    viol.append(("algebra:none:%s" % shape(e), "the Current expression %s evaluates to None" % (e,), None, coefs))
                    return None
                if any(x not in s.stations for x in coefs):
                    return None  # a failing update is outside the property (not enabled)
                if n not in [r[0] for r in s.rows]:
                    before = observe(net)
                    try:
                        net.update_constraint(n, cur, limit, new)
                        viol.append(("update:unknown-accepted", "update_constraint(%r) did not raise" % n, None, None))
                        return None
                    except KeyError:
                        if observe(net) != before:
                            viol.append(("update:unknown-changed-state", "refused update changed the table", None, None))
                        return s
                if too_deep(model_remove(s.rows, n), new if new is not None else n):
                    return None  # an update may be refused half-way (remove done, add refused): outside the alphabet
                n_before = len(net.constraint_index)
                net.update_constraint(n, cur, limit, new)
                s.rows = model_remove(s.rows, n)
                model_add(s.rows, new if new is not None else n, coefs, limit, net.constraint_index[-1] if len(net.constraint_index) == n_before else None)
                tag = "upd:" + shape(e)
            elif kind == "json":
                # the network is dumped and re-loaded; the restored object carries on (only used in root histories)
                s.net = net = ChargingNetwork.from_json(net.to_json())
                tag = "json"
            elif kind == "reg":
                nxt = [x for x in "ABCD" if x not in s.stations]
                if not nxt:
                    return None
                x = nxt[0]
                before = observe(net)
                try:
                    net.register_evse(EVSE(x, max_rate=32), ST[x][0], ST[x][1])
                    accepted = True
                except Exception as exc:
                    guard(exc)
                    accepted = False
                    if type(exc).__name__ != "EVSERegistrationError":
                        viol.append(("register:wrong-exception", "register_evse raised %r" % (exc,), repr(exc), "EVSERegistrationError"))
                if accepted and s.rows:
                    viol.append(("register:accepted-with-constraints", "register_evse accepted while %d constraints exist" % len(s.rows), None, None))
                    return None
                if accepted:
                    s.stations.append(x)
                    if s.ever:
                        tag = "reg-after-removal"
                    else:
                        tag = "reg"
                else:
                    if not s.ever:
                        viol.append(("register:refused-without-constraints", "register_evse refused although no constraint was ever added", None, None))
                    if observe(net) != before:
                        viol.append(("register:refused-changed-state", "refused registration changed the network", None, None))
                    tag = "reg-refused"
            else:
                raise ValueError(op)
        except Exception as exc:
            guard(exc)
            viol.append(("exception:%s:%s" % (kind, type(exc).__name__), "operation %s raised %r" % (op, exc), repr(exc), None))
            return None
    n0 = len(viol)
    check_state(s, viol, op)
    if len(viol) > n0:
        return None  # a violated state is reported once, never used as the root of further exploration
    return s


def observe(net):
    cm = None if net.constraint_matrix is None else np.asarray(net.constraint_matrix, dtype=float).tolist()
    return (list(net.station_ids), cm, np.asarray(net.magnitudes, dtype=float).tolist(), list(net.constraint_index), np.asarray(net._voltages).tolist(), np.asarray(net._phase_angles).tolist())


def close(a, b):
    return abs(a - b) <= 1e-9 * max(1.0, abs(a), abs(b))


def check_state(s: State, viol, op):
    net = s.net
    tag = op[0]
    sig_suffix = ""
    if op[0] in ("add", "upd"):
        e = EXPRS[op[1] if op[0] == "add" else op[2]]
        sig_suffix = ":" + shape(e)
    if list(net.station_ids) != s.stations:
        viol.append(("stations", "station_ids %s, expected %s" % (net.station_ids, s.stations), net.station_ids, s.stations))
        return
    volt = [ST[x][0] for x in s.stations]
    ang = [ST[x][1] for x in s.stations]
    if list(np.asarray(net._voltages)) != volt or list(np.asarray(net._phase_angles)) != ang:
        viol.append(("voltages-angles", "voltage/angle arrays not aligned with station order", None, None))
    names = [r[0] for r in s.rows]
    if list(net.constraint_index) != names:
        viol.append(("names%s" % sig_suffix, "constraint_index %s, expected %s" % (net.constraint_index, names), list(net.constraint_index), names))
        return
    mags = np.asarray(net.magnitudes, dtype=float)
    if mags.shape != (len(names),) or any(not close(float(mags[i]), s.rows[i][2]) for i in range(len(names))):
        viol.append(("limits%s" % sig_suffix, "magnitudes %s, expected %s" % (mags.tolist(), [r[2] for r in s.rows]), mags.tolist(), [r[2] for r in s.rows]))
        return
    if not s.rows and net.constraint_matrix is None:
        return
    df = net.constraints_as_df()
    if list(df.columns) != s.stations or list(df.index) != names:
        viol.append(("df-labels%s" % sig_suffix, "constraints_as_df labels wrong", [list(df.index), list(df.columns)], [names, s.stations]))
        return
    cm = np.asarray(net.constraint_matrix, dtype=float)
    if cm.shape != (len(names), len(s.stations)):
        viol.append(("matrix-shape%s" % sig_suffix, "constraint_matrix shape %s" % (cm.shape,), list(cm.shape), [len(names), len(s.stations)]))
        return
    for i, (n, coefs, lim) in enumerate(s.rows):
        for j, x in enumerate(s.stations):
            want = coefs.get(x, 0.0)
            got = cm[i, j]
            got_df = float(df.loc[n, x]) if list(df.index).count(n) == 1 else got
            if not (got == got) or not close(float(got), want) or not (got_df == got_df) or not close(got_df, want):
                viol.append(("coefficient%s" % sig_suffix, "row %r station %s holds %r, the constraint's coefficient is %r (after %s)" % (n, x, float(got), want, op), cm.tolist(), [r[1] for r in s.rows]))
                return
    # ---- aggregate currents for every ordered subset of names x time-index subsets
    if not names:
        return
    sched = np.array([SCHED[x] for x in s.stations])
    ph = [cmath.exp(1j * math.radians(ST[x][1])) for x in s.stations]

    def ref(i, t):
        return sum(s.rows[i][1].get(x, 0.0) * sched[j, t] * ph[j] for j, x in enumerate(s.stations))

    T = sched.shape[1]
    tsets = [None, [0], [2], [0, 2], [1, 2], [0, 1, 2], [0, 0, 2], [1, 1]]
    subsets = [None]
    if len(names) <= 3:
        for k in range(1, len(names) + 1):
            for perm in itertools.permutations(names, k):
                subsets.append(list(perm))
    else:
        # larger tables: every single name, every ordered pair, and three orders of the full set
        for k in (1, 2):
            for perm in itertools.permutations(names, k):
                subsets.append(list(perm))
        subsets += [list(names), list(reversed(names)), list(names[1:]) + [names[0]], list(names[2:]) + [names[0]]]
    subsets.append([names[0], "unknown-name"])
    subsets.append([])  # nothing requested: no rows
    for sub in subsets:
        rows_i = list(range(len(names))) if sub is None else [i for i, n in enumerate(names) if n in sub]
        # all time-index subsets for the full table and for single constraints; two of them for larger ordered subsets
        for ts in (tsets if (sub is None or len(sub) == 1) else (None, [0, 2], [1, 1])):
            cols = list(range(T)) if ts is None else ts
            try:
                got = np.asarray(net.constraint_current(sched, constraints=sub, time_indices=ts))
            except Exception as exc:
                guard(exc)
                viol.append(("constraint_current:exception", "constraint_current(constraints=%s,time_indices=%s) raised %r" % (sub, ts, exc), repr(exc), None))
                return
            if got.shape != (len(rows_i), len(cols)):
                viol.append(("constraint_current:shape", "constraint_current(constraints=%s,time_indices=%s) has shape %s" % (sub, ts, got.shape), list(got.shape), [len(rows_i), len(cols)]))
                return
            for a, i in enumerate(rows_i):
                for b, t in enumerate(cols):
                    w = ref(i, t)
                    g = complex(got[a, b])
                    if not (abs(g - w) <= 1e-9 * max(1.0, abs(w))):
                        viol.append(
                            (
                                "constraint_current:%s" % ("subset-order" if sub is not None and sub != [names[i] for i in rows_i] else ("time-subset" if ts is not None else "value")),
                                "constraint_current(constraints=%s,time_indices=%s)[%d,%d]=%r, expected row %r period %d = %r" % (sub, ts, a, b, g, names[i], t, w),
                                [str(g)],
                                [str(w)],
                            )
                        )
                        return
    # linear variant: sum |a_i| x_i - on the full set, and for requested subsets of constraints / periods
    lin_subsets = [None] + [subsets[k] for k in (1, len(subsets) // 2, len(subsets) - 2) if 0 < k < len(subsets) - 1]
    for sub in lin_subsets:
        rows_i = list(range(len(names))) if sub is None else [i for i, n in enumerate(names) if n in sub]
        for ts in (None, [2], [0, 2], [1, 1]):
            cols = list(range(T)) if ts is None else ts
            try:
                lin = np.asarray(net.constraint_current(sched, constraints=sub, time_indices=ts, linear=True))
            except Exception as exc:
                guard(exc)
                viol.append(("constraint_current:linear:exception", "constraint_current(linear=True, constraints=%s, time_indices=%s) raised %r" % (sub, ts, exc), repr(exc), None))
                return
            if lin.shape != (len(rows_i), len(cols)):
                viol.append(("constraint_current:linear:shape", "constraint_current(linear=True, constraints=%s, time_indices=%s) has shape %s" % (sub, ts, lin.shape), list(lin.shape), [len(rows_i), len(cols)]))
                return
            for a, i in enumerate(rows_i):
                for b, t in enumerate(cols):
                    w = sum(abs(s.rows[i][1].get(x, 0.0)) * sched[j, t] for j, x in enumerate(s.stations))
                    if not close(float(abs(lin[a, b])), w):
                        viol.append(("constraint_current:linear", "linear aggregate (constraints=%s, time_indices=%s) of row %r period %d is %r, expected %r" % (sub, ts, names[i], t, lin[a, b], w), str(lin[a, b]), w))
                        return


def nontrivial(s: State):
    if len(s.rows) < 2:
        return False
    for _, co, _ in s.rows:
        vals = [c for c in co.values() if c != 0]
        if any(c < 0 for c in vals) and any(c > 0 for c in vals) or any(abs(c) not in (0.0, 1.0) for c in vals):
            return True
    return False


def bounds(tier, seed):
    if tier == "thorough":
        return {"orders": [list(p) for p in itertools.permutations("ABC")] + [["A", "B"], ["C", "A"]], "depth_full": 3, "depth_reduced": 4, "expressions": len(EXPRS)}
    return {"orders": [["A", "B", "C"], ["C", "A", "B"], ["B", "C", "A"], ["A", "B"]], "depth_full": 2, "depth_reduced": 3, "expressions": len(EXPRS)}


def exec_ops(order, ops):
    st = fresh(order)
    viol = []
    for op in ops:
        nxt = step(st, op, viol)
        if nxt is None:
            break
        st = nxt
    return st, viol


def bfs(order, root_hist, depth, full, acc):
    root, v0 = exec_ops(order, root_hist)
    seen = {root.canon()}
    acc.state(root.canon())
    frontier = [(root, root_hist)]
    exprs = list(range(len(EXPRS))) if full else REDUCED
    for _ in range(depth):
        nxt = []
        for st, hist in frontier:
            for op in ops_for(st, exprs, full):
                viol = []
                s2 = step(st, op, viol)
                if s2 is None and not viol:
                    continue
                acc.transitions += 1
                h2 = hist + [op]
                for sig, what, o, e in viol:
                    acc.violation(sig, what, {"order": order, "ops": h2}, o, e)
                if s2 is None:
                    continue
                acc.outcome((op[0], len(s2.rows), len(s2.stations)))
                c = s2.canon()
                if c not in seen:
                    seen.add(c)
                    acc.state(c)
                    if nontrivial(s2):
                        acc.nt(c)
                    nxt.append((s2, h2))
        frontier = nxt
    return frontier


def space(tier, seed):
    b = bounds(tier, seed)
    items = []
    for order in b["orders"]:
        # split: one item per first operation (full alphabet), plus the reduced-alphabet deep search
        root = fresh(order)
        for op in ops_for(root, list(range(len(EXPRS))), True):
            items.append({"order": order, "root": [op], "depth": b["depth_full"] - 1, "full": True})
        for op in ops_for(root, REDUCED, False):
            items.append({"order": order, "root": [op], "depth": b["depth_reduced"] - 1, "full": False})
        # start from non-initial states too: tables that already hold unnamed / named constraints
        if len(order) == 3:
            # (named ones use a name outside the alphabet, so the search stays within ONE duplicate of a name)
            for pre in (
                [["add", 0, None], ["add", 6, None], ["add", 3, None]],
                [["add", 14, "x1"], ["add", 6, None]],
                [["add", 4, None], ["add", 0, "x1"], ["add", 12, None]],
                # unnamed constraints interleaved with a removal: the invented names are _const_1, _const_2, _const_2_v2
                [["add", 0, None], ["add", 6, None], ["add", 3, None], ["rem", "_const_0"], ["add", 12, None]],
                # tables in which two rows already carry the SAME name (a name taken three times over; an invented name
                # colliding twice): a removal by that name must take out one row, one limit and one name
                [["add", 0, "c1"], ["add", 6, "c1"], ["add", 3, "c1"]],
                [["add", 0, None], ["add", 6, None], ["add", 3, None], ["rem", "_const_0"], ["add", 12, None], ["rem", "_const_1"], ["add", 4, None]],
            ):
                items.append({"order": order, "root": pre, "depth": 2, "full": False})
            # ... and tables that went through a JSON round trip before the edits continue
            for pre in ([["add", 0, None], ["add", 6, None], ["json"]], [["add", 14, "x1"], ["rem", "x1"], ["json"]], [["json"], ["add", 4, None]]):
                items.append({"order": order, "root": pre, "depth": 2, "full": False})
    return items


def run(item):
    acc = Acc()
    root, v0 = exec_ops(item["order"], item["root"])
    acc.transitions += len(item["root"])
    for sig, what, o, e in v0:
        acc.violation(sig, what, {"order": item["order"], "ops": item["root"]}, o, e)
    if not v0:
        bfs(item["order"], item["root"], item["depth"], item["full"], acc)
    acc.evals += acc.transitions
    acc.sample({"order": item["order"], "first_op": item["root"], "then": "every operation sequence of length <= %d (%s alphabet)" % (item["depth"], "full" if item["full"] else "reduced")}, cap=2)
    return acc


def replay(scn):
    _, viol = exec_ops(scn["order"], scn["ops"])
    return [{"signature": s, "what": w, "observed": o, "expected": e} for s, w, o, e in viol]
