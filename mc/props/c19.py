"""C19 - stochastic space assignment never loses, duplicates or starves a session.

SCEN x CHOICE: every bounded arrival/departure history (multisets of session types, more
simultaneous sessions than stations) x station count x early_departure, run through the
real Simulator on a StochasticNetwork whose `random.choice` is owned by the explorer:
EVERY answer sequence is explored depth-first (stateless re-execution). A placement model
(stations + FIFO list) is stepped at every plug-in, unplug and period and compared with the
real network; reproducibility is checked with the real random module under fixed seeds.
"""
from __future__ import annotations

import itertools
import random as _random
import warnings

import numpy as np

from acnportal.acnsim import Simulator
from acnportal.acnsim.events import EventQueue, PluginEvent
from acnportal.acnsim.models import EV, Battery, Linear2StageBattery
from acnportal.acnsim.models.evse import EVSE
from acnportal.contrib.acnsim.network import stochastic_network as SN
from acnportal.algorithms import UncontrolledCharging

from mc.core import Acc, guard
from mc.engines import explore_choices
from mc import simspace as S

ID = "C19"
LEVEL = "model_checking"
TECHNIQUE = (
    "exhaustive enumeration of bounded arrival/departure histories x configurations, and for each a complete depth-first exploration of every answer sequence of the owned random.choice "
    "(stateless re-execution of the real Simulator + StochasticNetwork); placement reference model compared after every plug-in, unplug and period"
)
RULE = (
    "histories = multisets of <=k session types (arrival 0..2, departure 2..4, energy met-early/never-met) x 1..3 stations x early_departure off/on; every random.choice answer sequence; "
    "state = (period, station occupancy, waiting list, departed set); non-trivial = execution in which at least one EV waited (queue non-empty at some point)"
)
ASSUMPTIONS = [
    "FIFO order = order in which plug-ins are processed (observed from the real run, so no assumption on how the event heap orders simultaneous arrivals)",
    "scheduler: uncontrolled charging at every period (max_recompute=1); the placement logic does not depend on the scheduler",
    "direct block: the network driven operation by operation without a simulator (arrive / depart / end of period / register a station while nobody waits), every sequence up to the depth x every choice answer",
    "hash-seed differential: 240 four/five-session histories on three stations x seeds 0-2 re-run in 4 child interpreters with different PYTHONHASHSEED, digests compared",
    "random.choice is the only randomness of the network (the shim raises on any other use of the random module)",
]
CHUNK = 16


class Shim:
    """stands in for the `random` module inside stochastic_network"""

    def __init__(self, chooser):
        self._ch = chooser

    def choice(self, seq):
        seq = list(seq)
        return seq[self._ch.choose(len(seq))]

    def __getattr__(self, name):
        raise AttributeError("un-owned random.%s used by StochasticNetwork" % name)


class MonStoch(SN.StochasticNetwork):
    def plugin(self, ev, station_id=None):
        self._hook("before-plugin", ev)
        super().plugin(ev)
        self._hook("plugin", ev)

    def unplug(self, station_id, session_id=None):
        self._hook("before-unplug", (station_id, session_id))
        super().unplug(station_id, session_id)
        self._hook("unplug", (station_id, session_id))

    def post_charging_update(self):
        self._hook("before-period-end", None)
        super().post_charging_update()
        self._hook("period-end", None)

    def _hook(self, kind, arg):
        h = getattr(self, "_h", None)
        if h is not None:
            h(kind, arg)


def bounds(tier, seed):
    return {"kmax": 3 if tier == "quick" else 5, "stations": [1, 2, 3], "arrivals": [0, 1, 2], "departures": [2, 3, 4], "early_departure": [False, True], "seeds": [0, 1, 2, 3, 4]}


TYPES = [(a, d, e) for a in (0, 1, 2) for d in (2, 3, 4) if a < d for e in ("met", "never")]


def space(tier, seed):
    kmax = 3 if tier == "quick" else 5
    items = []
    for k in range(1, kmax + 1):
        for combo in itertools.combinations_with_replacement(range(len(TYPES)), k):
            for ns in (1, 2, 3):
                if ns > k and ns > 1 and k > 1:
                    continue  # more stations than sessions: only the k=1 cases keep it (nobody can ever wait)
                for early in (False, True):
                    items.append({"types": list(combo), "ns": ns, "early": early})
    # direct block: the network driven without a simulator, operation by operation (arrive / depart / end of period /
    # a station added to the live site), sharded by the first two operations
    for early in (False, True):
        for first in DIRECT_OPS:
            for second in DIRECT_OPS:
                items.append({"direct": True, "early": early, "prefix": [first, second], "depth": 6 if tier == "quick" else 8})
    return items


# ----------------------------------------------------------------------------------------------------
# direct block
# ----------------------------------------------------------------------------------------------------
DIRECT_OPS = [["arr", 0], ["arr", 1], ["arr", 2], ["dep", 0], ["dep", 1], ["dep", 2], ["end"], ["reg"]]


def direct_once(early, ops, chooser):
    """apply the operation list to a fresh StochasticNetwork (one station at first); returns (violations, enabled?, waited)"""
    viol = []
    net = SN.StochasticNetwork(early_departure=early)
    net.register_evse(EVSE("S0", max_rate=32), 208, 0)
    evs = [
        EV(0, 9, 60.0, "nowhere", "ev0", Battery(100.0, 0.0, 7.0)),
        EV(0, 9, 0.4, "S0", "ev1", Battery(10.0, 5.0, 7.0)),  # met after one period at 32 A
        EV(0, 9, 0.0005, "S1", "ev2", Battery(100.0, 0.0, 7.0)),  # asks for half a watt-hour: 'satisfied' from the start
    ]
    st, wait, gone, arrived = {"S0": None}, [], set(), set()
    never = 0
    waited = False

    def rep(sig, what, o=None, e=None):
        viol.append((sig, what, o, e))

    def real():
        return {s_: (net._EVSEs[s_].ev.session_id if net._EVSEs[s_].ev is not None else None) for s_ in net.station_ids}, list(net.waiting_queue.keys())

    old = SN.random
    SN.random = Shim(chooser)
    try:
        with warnings.catch_warnings():
            warnings.simplefilter("ignore")
            for k, op in enumerate(ops):
                where = "after operation %d %s" % (k, op)
                if op[0] == "arr":
                    ev = evs[op[1]]
                    if ev.session_id in arrived:
                        return viol, False, waited
                    free = [s_ for s_, v in st.items() if v is None]
                    net.plugin(ev)
                    arrived.add(ev.session_id)
                    occ, wq = real()
                    if free:
                        got = [s_ for s_ in free if occ.get(s_) == ev.session_id]
                        if len(got) != 1:
                            rep("direct:arrival-not-on-a-free-station", "%s: free stations %s, now stations %s, waiting %s" % (where, free, occ, wq), occ, free)
                            return viol, True, waited
                        st[got[0]] = ev.session_id
                    else:
                        wait.append(ev.session_id)
                elif op[0] == "dep":
                    ev = evs[op[1]]
                    if ev.session_id not in arrived or ev.session_id in gone:
                        return viol, False, waited
                    net.unplug(ev.station_id, ev.session_id)
                    sid = ev.session_id
                    gone.add(sid)
                    if sid in wait:
                        wait.remove(sid)
                        never += 1
                    else:
                        s_ = [k_ for k_, v in st.items() if v == sid][0]
                        st[s_] = wait.pop(0) if wait else None
                elif op[0] == "reg":
                    # a station is added to the live site - while nobody waits (nothing admits a waiting EV then)
                    if wait or len(st) >= 3:
                        return viol, False, waited
                    name = "S%d" % len(st)
                    net.register_evse(EVSE(name, max_rate=32), 208, 0)
                    st[name] = None
                else:  # end of a period: the connected EVs charge, then the network's end-of-period update
                    full = []
                    for s_ in net.station_ids:
                        e_ = net._EVSEs[s_].ev
                        if e_ is not None:
                            e_.charge(32.0, 208, 5)
                            if e_.fully_charged:
                                full.append((s_, e_.session_id))
                    net.post_charging_update()
                    if early:
                        # any min(#satisfied, #waiting) of the satisfied EVs may give way to the first waiters (see run_once)
                        kk = min(len(full), len(wait))
                        occ_now, _ = real()
                        freed = [(s_, sid) for s_, sid in full if occ_now.get(s_) != sid]
                        if kk and len(freed) == kk and sorted(str(occ_now[s_]) for s_, _ in freed) == sorted(str(w) for w in wait[:kk]):
                            for s_, sid in freed:
                                st[s_] = occ_now[s_]
                                gone.add(sid)
                            del wait[:kk]
                        else:
                            for s_, sid in full:
                                if wait:
                                    st[s_] = wait.pop(0)
                                    gone.add(sid)
                occ, wq = real()
                if wq:
                    waited = True
                if wq and any(v is None for v in occ.values()):
                    rep("direct:starvation", "%s: %s wait(s) while %s free" % (where, wq, [s_ for s_, v in occ.items() if v is None]), wq, [])
                    break
                if occ != st or wq != wait:
                    rep("direct:placement", "%s: stations %s waiting %s, first-come-first-served model: stations %s waiting %s" % (where, occ, wq, st, wait), [occ, wq], [dict(st), list(wait)])
                    break
                if net.never_charged != never:
                    rep("direct:never_charged", "%s: never_charged=%d, model %d" % (where, net.never_charged, never), net.never_charged, never)
                    break
    except Exception as exc:
        guard(exc)
        rep("direct:exception:%s" % type(exc).__name__, "operation sequence %s raised %r" % (ops, exc), repr(exc), None)
    finally:
        SN.random = old
    return viol, True, waited


def run_direct(item, acc):
    """every enabled operation sequence extending the prefix up to the depth x every owned random.choice answer"""
    early, depth = item["early"], item["depth"]

    def rec(ops):
        enabled_any = False
        for choices, res in explore_choices(lambda ch: direct_once(early, ops, ch)):
            viol, enabled, waited = res
            if not enabled:
                return False
            enabled_any = True
            acc.evals += 1
            acc.transitions += len(ops)
            acc.outcome(("direct", len(viol), waited))
            acc.state(("direct", early, tuple(map(tuple, ops)), tuple(choices)))
            if waited:
                acc.nt(("direct", early, tuple(map(tuple, ops)), tuple(choices)))
            for sg, w, o, e in viol:
                acc.violation(sg, w, {"direct": True, "early": early, "ops": ops, "choices": list(choices)}, o, e)
            if viol:
                return True
        if enabled_any and len(ops) < depth:
            for op in DIRECT_OPS:
                rec(ops + [op])
        return enabled_any

    rec(list(item["prefix"]))


def build(item, chooser_shim=None):
    net = MonStoch(early_departure=item["early"])
    for i in range(item["ns"]):
        net.register_evse(EVSE("S%d" % i, max_rate=32), 208, 0)
    evs = []
    events = []
    for j, ti in enumerate(item["types"]):
        a, d, e = TYPES[ti]
        if e == "met" and j % 2 == 1:
            # satisfied without ever being full to the last watt-hour: a two-stage battery whose free capacity equals the
            # request approaches it asymptotically (within 1e-3 kWh - the library's notion of fully charged - after one period)
            req = 0.45 + 0.01 * j
            batt = Linear2StageBattery(req, 0.0, 7.0)
        elif e == "met":
            batt, req = Battery(10.0, 5.0, 7.0), 0.4 + 0.01 * j  # met within one 5-minute period at 32 A
        elif j % 3 == 2:
            # never satisfied, but its battery is FULL after the first period (request above the battery's head-room): it
            # keeps its space until it departs - a full battery is not a met request
            batt, req = Battery(2.0, 1.5, 7.0), 6.0
        else:
            batt, req = Battery(100.0, 0.0, 7.0), 60.0
        # the session's nominal station id is a REGISTERED station for every second session (the network
        # assigns the real one), an unknown name for the others
        # every second driver announces a later departure than the real one (it only informs schedulers)
        ev = EV(a, d, req, "S%d" % (j % item["ns"]) if j % 2 == 0 else "nowhere", "ev%d" % j, batt, estimated_departure=(d + 2 if j % 2 == 1 else None))
        evs.append(ev)
        events.append(PluginEvent(a, ev))
    algo = UncontrolledCharging()
    algo.max_recompute = 1
    with warnings.catch_warnings():
        warnings.simplefilter("ignore")
        sim = Simulator(net, algo, EventQueue(events), S.START, period=5, verbose=False)
    return sim, net, evs


class Model:
    def __init__(self, station_ids, early):
        self.st = {s: None for s in station_ids}
        self.wait = []
        self.gone = set()
        self.arrived = set()
        self.never = 0
        self.early = early
        self.early_unplug = 0
        self.swaps = 0


def run_once(item, chooser, collect=None):
    """one execution under the chooser; returns list of violations (sig, what, obs, exp)"""
    viol = []
    sim, net, evs = build(item)
    by_id = {e.session_id: e for e in evs}
    m = Model(list(net.station_ids), item["early"])
    info = {"waited": False, "states": [], "periods": 0, "choices": 0}
    pending = {}

    def rep(sig, what, o=None, e=None):
        if len(viol) < 10:
            viol.append((sig, what, o, e))

    def real_place():
        occ = {s: (net._EVSEs[s].ev.session_id if net._EVSEs[s].ev is not None else None) for s in net.station_ids}
        return occ, list(net.waiting_queue.keys())

    def compare(where):
        occ, wq = real_place()
        if wq:
            info["waited"] = True
        # I1 / I2: every arrived, not departed EV in exactly one place
        places = {}
        for s, sid in occ.items():
            if sid is not None:
                places.setdefault(sid, []).append(s)
        for sid in wq:
            places.setdefault(sid, []).append("waiting")
        for sid in m.arrived - m.gone:
            if len(places.get(sid, [])) != 1:
                rep("place:%s" % ("lost" if not places.get(sid) else "duplicated"), "%s: session %s is at %s (must be exactly one place)" % (where, sid, places.get(sid, [])), places.get(sid, []), "one place")
                return False
        for sid in places:
            if sid not in m.arrived or sid in m.gone:
                rep("place:ghost", "%s: session %s is present at %s although it has %s" % (where, sid, places[sid], "departed" if sid in m.gone else "not arrived"), places[sid], None)
                return False
        # I3: nobody waits while a station is free
        if wq and any(v is None for v in occ.values()):
            rep("starvation", "%s: %s wait(s) while station(s) %s are free" % (where, wq, [s for s, v in occ.items() if v is None]), wq, [])
            return False
        # model agreement (FIFO admission, who sits where)
        if wq != m.wait:
            rep("fifo:queue-order", "%s: waiting queue is %s, first-come-first-served model has %s" % (where, wq, m.wait), wq, list(m.wait))
            return False
        if occ != m.st:
            rep("fifo:wrong-ev-admitted" if sorted(str(x) for x in occ.values()) != sorted(str(x) for x in m.st.values()) else "placement:wrong-station", "%s: stations hold %s, model %s" % (where, occ, m.st), occ, dict(m.st))
            return False
        for s, sid in occ.items():
            if sid is not None and by_id[sid].station_id != s:
                rep("station_id:stale", "%s: session %s sits at %s but its station_id says %r" % (where, sid, s, by_id[sid].station_id), by_id[sid].station_id, s)
                return False
        if net.never_charged != m.never:
            rep("counter:never_charged", "%s: never_charged = %d, %d sessions departed while waiting" % (where, net.never_charged, m.never), net.never_charged, m.never)
            return False
        info["states"].append((sim._iteration, tuple(sorted(occ.items())), tuple(wq), tuple(sorted(m.gone))))
        return True

    def hook(kind, arg):
        if viol:
            return
        if kind == "before-plugin":
            pending["free"] = [s for s, v in m.st.items() if v is None]
        elif kind == "plugin":
            ev = arg
            m.arrived.add(ev.session_id)
            free = pending["free"]
            if free:
                # whichever free station the (owned) choice picked; it must be one of the free ones
                occ, _ = real_place()
                got = [s for s in free if occ.get(s) == ev.session_id]
                if len(got) != 1:
                    rep("plugin:not-on-a-free-station", "plug-in of %s with free stations %s: stations now %s" % (ev.session_id, free, occ), occ, free)
                    return
                m.st[got[0]] = ev.session_id
            else:
                m.wait.append(ev.session_id)
            compare("after plug-in of %s" % ev.session_id)
        elif kind == "before-unplug":
            pending["unplug_nested"] = pending.get("in_period_end", False)
        elif kind == "unplug":
            station_id, sid = arg
            if pending.get("in_period_end"):
                return  # early departures are stepped by the period-end hook as one transition
            if sid in m.wait:
                m.wait.remove(sid)
                m.never += 1
                m.gone.add(sid)
            elif sid in m.st.values():
                s = [k for k, v in m.st.items() if v == sid][0]
                m.st[s] = None
                m.gone.add(sid)
                if m.wait:
                    m.st[s] = m.wait.pop(0)
                    m.swaps += 1
            else:
                # unplug event of a session that already left early: nothing happens
                if sid not in m.gone:
                    rep("unplug:unknown-session", "unplug of %s which is neither connected nor waiting nor gone" % sid, None, None)
                    return
            compare("after unplug of %s" % sid)
        elif kind == "before-period-end":
            pending["in_period_end"] = True
            pending["full"] = [(s, net._EVSEs[s].ev.session_id) for s in net.station_ids if net._EVSEs[s].ev is not None and net._EVSEs[s].ev.fully_charged]
        elif kind == "period-end":
            pending["in_period_end"] = False
            if m.early:
                # k = min(#satisfied, #waiting) satisfied EVs give up their space and the FIRST k waiters take the
                # freed stations. WHICH of several satisfied EVs leaves, and which freed station a waiter gets, is not
                # fixed by the property: any such outcome is accepted and the model follows the real placement.
                full = pending["full"]
                k = min(len(full), len(m.wait))
                occ_now, _ = real_place()
                freed = [(s_, sid_) for s_, sid_ in full if occ_now.get(s_) != sid_]
                if k and len(freed) == k and sorted(str(occ_now[s_]) for s_, _ in freed) == sorted(str(w) for w in m.wait[:k]):
                    for s_, sid_ in freed:
                        m.st[s_] = occ_now[s_]
                        m.gone.add(sid_)
                    del m.wait[:k]
                    m.early_unplug += k
                    m.swaps += k
                else:
                    # not an admissible outcome (or nothing to do): step the reference in station order, the
                    # comparison below then shows the difference
                    for s_, sid_ in full:
                        if m.wait:
                            m.st[s_] = m.wait.pop(0)
                            m.gone.add(sid_)
                            m.early_unplug += 1
                            m.swaps += 1
            info["periods"] += 1
            # a session is on site (connected or waiting) only in the periods before its departure
            late = sorted(sid for sid in (m.arrived - m.gone) if by_id[sid].departure <= sim._iteration)
            if late:
                rep("departure:still-on-site", "end of period %d: session(s) %s whose departure period (%s) has come are still connected or waiting" % (sim._iteration, late, [by_id[x].departure for x in late]), late, [])
                return
            if compare("end of period %d" % sim._iteration):
                if net.early_unplug != m.early_unplug:
                    rep("counter:early_unplug", "early_unplug = %d, model %d" % (net.early_unplug, m.early_unplug), net.early_unplug, m.early_unplug)
                elif net.swaps != m.swaps:
                    rep("counter:swaps", "swaps = %d, model %d" % (net.swaps, m.swaps), net.swaps, m.swaps)
            if sim._iteration > 12:
                raise S.Watchdog("still running at period %d" % sim._iteration)

    net._h = hook
    old = SN.random
    SN.random = Shim(chooser) if chooser is not None else old
    try:
        with warnings.catch_warnings():
            warnings.simplefilter("ignore")
            sim.run()
    except S.Watchdog as exc:
        rep("termination:watchdog", str(exc), None, None)
    except Exception as exc:
        guard(exc)
        if not viol:
            rep("exception:%s" % type(exc).__name__, "run() raised %r" % (exc,), repr(exc), None)
    finally:
        SN.random = old
    if not viol and info["periods"] != sim._iteration:
        rep("period-end:skipped", "the network's end-of-period update ran %d times in %d simulated periods (early departures / admissions are decided there)" % (info["periods"], sim._iteration), info["periods"], sim._iteration)
    if not viol:
        occ, wq = real_place()
        if any(v is not None for v in occ.values()) or wq:
            rep("end:not-empty", "after the run stations hold %s and %s still wait" % (occ, wq), [occ, wq], "empty")
        if m.arrived != set(by_id) or m.gone != set(by_id):
            rep("end:sessions-not-gone", "sessions arrived %s, gone %s" % (sorted(m.arrived), sorted(m.gone)), sorted(m.gone), sorted(by_id))
    out = {
        "rates": np.array(sim.charging_rates).tolist(),
        "energy": {k: float(v.energy_delivered) for k, v in sim.ev_history.items()},
        "never": net.never_charged,
        "swaps": net.swaps,
        "early": net.early_unplug,
    }
    return viol, info, out


def execute(item, only_choices=None):
    viol = []
    stats = {"execs": 0, "periods": 0, "states": [], "waited": 0, "outcomes": set(), "max_arity": 0, "choice_points": 0}
    traces = []
    if only_choices is not None:
        from mc.engines import Chooser

        ch = Chooser(only_choices)
        v, info, out = run_once(item, ch)
        return [(s, w, o, e, ch.choices) for s, w, o, e in v], stats
    for choices, res in explore_choices(lambda ch: (run_once(item, ch), list(ch.trace))):
        if choices == "CAPPED":
            break
        (v, info, out), trace = res
        stats["execs"] += 1
        stats["periods"] += info["periods"]
        stats["states"].extend(info["states"])
        stats["waited"] += 1 if info["waited"] else 0
        stats["choice_points"] += len(trace)
        stats["max_arity"] = max([stats["max_arity"]] + [a for _, a in trace])
        stats["outcomes"].add((out["never"], out["swaps"], out["early"], info["waited"]))
        traces.append((choices, out))
        for s, w, o, e in v:
            viol.append((s, w, o, e, choices))
    # ---- reproducibility with the real random module under fixed seeds ---------------
    if not viol:
        for sd in (0, 1, 2, 3, 4):
            outs = []
            for _ in range(2):
                _random.seed(sd)
                v, info, out = run_once(item, None)
                outs.append(out)
                stats["execs"] += 1
                for s, w, o, e in v:
                    viol.append((s + ":seeded", w, o, e, ["seed", sd]))
            if outs[0] != outs[1]:
                viol.append(("seed:not-reproducible", "two runs under random.seed(%d) differ" % sd, outs[0], outs[1], ["seed", sd]))
            elif not any(outs[0] == t[1] for t in traces):
                viol.append(("seed:outside-explored-space", "the run under random.seed(%d) equals none of the %d explored choice sequences" % (sd, len(traces)), outs[0], None, ["seed", sd]))
    return viol, stats


def run(item):
    acc = Acc()
    if item.get("direct"):
        run_direct(item, acc)
        acc.sample({"direct_prefix": item["prefix"], "early_departure": item["early"], "depth": item["depth"]}, cap=1)
        return acc
    viol, st = execute(item)
    acc.evals += st["execs"]
    acc.transitions += st["periods"]
    for s in st["states"]:
        acc.state((item["ns"], item["early"]) + s)
    for o in st["outcomes"]:
        acc.outcome(o)
    if st["waited"]:
        acc.nt((tuple(item["types"]), item["ns"], item["early"]))
    acc.count("choice_points", st["choice_points"])
    acc.count("executions_with_waiting", st["waited"])
    acc.count("items_with_max_arity_%d" % st["max_arity"])
    for s, w, o, e, choices in viol:
        acc.violation(s, w, dict(item, choices=choices), o, e)
    acc.sample({"sessions": [TYPES[t] for t in item["types"]], "stations": item["ns"], "early_departure": item["early"], "executions": st["execs"]}, cap=2)
    return acc


def replay(scn):
    if scn.get("hashseed"):
        return hashseed_check()
    if scn.get("direct"):
        from mc.engines import Chooser

        viol, _, _ = direct_once(scn["early"], scn["ops"], Chooser(scn.get("choices") or []))
        return [{"signature": v[0], "what": v[1], "observed": v[2], "expected": v[3]} for v in viol]
    item = {k: scn[k] for k in ("types", "ns", "early")}
    ch = scn.get("choices")
    if ch and ch[0] == "seed":
        viol, _ = execute(item)
    else:
        viol, _ = execute(item, only_choices=ch or [])
    return [{"signature": v[0], "what": v[1], "observed": v[2], "expected": v[3]} for v in viol]


# ----------------------------------------------------------------------------------------------------
# reproducibility across interpreter processes: a fixed random seed gives the same run whatever the string-hash seed
# ----------------------------------------------------------------------------------------------------
def digest():
    import hashlib, json

    h = hashlib.sha256()
    # three stations, early departure, at least three sessions that are satisfied after the first period plus one more
    # (which of several satisfied EVs gives up its space, and which station a waiting EV gets, must not depend on
    # anything but the random seed)
    met0 = [i for i, (a, d, e) in enumerate(TYPES) if a == 0 and e == "met"]
    items = []
    for three in itertools.combinations_with_replacement(met0, 3):
        for fourth in range(len(TYPES)):
            if TYPES[fourth][0] >= 1:
                items.append({"types": sorted(list(three) + [fourth]), "ns": 3, "early": True})
                items.append({"types": sorted(list(three) + [fourth, fourth]), "ns": 3, "early": True})
    for it in items:
        for sd in (0, 1, 2):
            _random.seed(sd)
            v, info, out = run_once(it, None)
            h.update(json.dumps([it["types"], it["ns"], sd, out, len(v)], sort_keys=True, default=repr).encode())
    return h.hexdigest()


def hashseed_check():
    import os, subprocess, sys

    outs = {}
    for hs in ("0", "1", "4242", "77"):
        env = dict(os.environ, PYTHONHASHSEED=hs)
        r = subprocess.run([sys.executable, "-W", "ignore", "-m", "mc.props.c19"], capture_output=True, text=True, env=env, cwd=os.path.dirname(os.path.dirname(os.path.dirname(os.path.abspath(__file__)))))
        outs[hs] = r.stdout.strip().splitlines()[-1] if r.returncode == 0 and r.stdout.strip() else "child failed: " + r.stderr[-300:]
    if len(set(outs.values())) != 1:
        return [{"signature": "seed:not-reproducible-across-processes", "what": "runs under the same random.seed differ between interpreter processes with different PYTHONHASHSEED (histories with three satisfied EVs on three stations + late arrivals, early departure, seeds 0-2)", "observed": outs, "expected": "identical digests"}]
    return []


def finalize(total, tier, seed):
    for v in hashseed_check():
        total.violation(v["signature"], v["what"], {"hashseed": True}, v["observed"], v["expected"])
    total.count("hashseed_children", 4)


if __name__ == "__main__":
    print(digest())
