"""C04 - applied pilots are exactly what the submitted schedules say.

Every sequence (program) of schedule submissions over a small schedule alphabet is fed,
invocation by invocation, to the real Simulator through a scripted scheduler; an overlay
model P_ref gives the expected pilot of every (station, period).
"""
from __future__ import annotations

import itertools
import warnings

import numpy as np

from acnportal.acnsim.interface import InvalidScheduleError
from acnportal.algorithms import BaseAlgorithm

from mc.core import Acc, guard
from mc import simspace as S

ID = "C04"
LEVEL = "model_checking"
TECHNIQUE = "exhaustive enumeration of schedule-submission programs (all sequences over a schedule alphabet) through the real Simulator; overlay reference model compared in every period and at the end; malformed submissions checked for atomic rejection"
RULE = (
    "setups (network, sessions, max_recompute / recompute events) x every sequence over the schedule alphabet, one entry per scheduler invocation (nothing follows a malformed entry); "
    "per period: pilot at every EVSE == overlay model; end: pilot_signals == overlay (zero padded); malformed -> KeyError/InvalidScheduleError with state untouched; "
    "states = (period, applied pilot vector, pending overlay); non-trivial = program with >=2 non-empty submissions whose ranges overlap"
)
ASSUMPTIONS = [
    "alphabet values are pilots every addressed EVSE accepts (acceptance itself is C13); infeasible schedules legitimately only warn",
    "the invocation periods are taken from the run itself (the invocation rule is C05)",
    "small scope: <=3 stations, <=5 invocations",
    "rows of one mapping may differ in value type (Python ints / integer array listed first, fractional floats after)",
]
CHUNK = 40


def row(vals, kind="float"):
    return {"v": list(vals), "as": kind}


# name -> ordered list of [station, row]; MALFORMED entries raise
ALPHABET = {
    "empty": [],
    "A1": [["PS-A", row([16])]],
    "A3": [["PS-A", row([8, 16, 24])]],
    "AB": [["PS-A", row([16]), ], ["PS-B", row([8])]],
    "BA": [["PS-B", row([8])], ["PS-A", row([16])]],
    "all2": [["PS-A", row([10, 12])], ["PS-B", row([16, 8])], ["PS-C", row([6, 7])]],
    # every station named, keys NOT in registration order (values() order is then not row order)
    "all2p": [["PS-C", row([6, 7])], ["PS-A", row([10, 12])], ["PS-B", row([16, 8])]],
    "vacantC": [["PS-C", row([32])]],
    "long9": [["PS-A", row([8] * 9)]],
    "ints": [["PS-A", row([16], "int")], ["PS-B", row([24], "int")]],
    "np64": [["PS-B", row([16, 16], "np64")], ["PS-C", row([6, 32], "np64")]],
    "ndarr": [["PS-A", row([31.5, 0.0, 7.25], "ndarray")], ["PS-C", row([0.0, 6.0, 0.0], "ndarray")]],
    "zeros": [["PS-A", row([0.0, 0.0])], ["PS-B", row([0.0, 0.0])]],
    # rows of different value types in one mapping: whole amperes as Python ints / an integer array FIRST, fractions after
    "mixed": [["PS-C", row([6, 8], "int")], ["PS-A", row([7.5, 8.25])]],
    "mixednp": [["PS-C", row([8, 6], "intarr")], ["PS-A", row([6.75, 31.25], "np64")]],
    # malformed
    "unknown": [["PS-A", row([16])], ["PS-X", row([8])]],
    "ragged": [["PS-A", row([8, 16])], ["PS-B", row([8])]],
}
MALFORMED = {"unknown": KeyError, "ragged": InvalidScheduleError}
QUICK = ["empty", "A1", "A3", "AB", "BA", "all2", "all2p", "vacantC", "long9", "ndarr", "zeros", "mixed", "unknown", "ragged"]
THOROUGH = list(ALPHABET)

SETUPS = {
    # name: (net, sessions, k, recompute events)  -> invocation periods
    "N2-k1": ("N2", [{"st": "PS-A", "a": 0, "d": 3}, {"st": "PS-B", "a": 1, "d": 2}], 1, []),  # calls 0,1,2,3
    "N2-k2": ("N2", [{"st": "PS-A", "a": 0, "d": 5}], 2, []),  # calls 0,2,4,5
    "N3-ev": ("N3", [{"st": "PS-B", "a": 1, "d": 4}], None, [0, 2]),  # calls 0,1,2,4
    "N2-k3": ("N2", [{"st": "PS-A", "a": 0, "d": 7}, {"st": "PS-B", "a": 0, "d": 1}], 3, []),  # calls 0,1,4,7
    "N1-k1": ("N1", [{"st": "PS-B", "a": 0, "d": 2}], 1, []),  # calls 0,1,2
    # two run() stages; between them the caller hands the simulator its scheduler again (update_scheduler) and queues the
    # second visit: calls 0,2 | 4,6 - a schedule submitted at 2 that reaches beyond the first stage keeps its periods
    "N2-swap": ("N2", [{"st": "PS-A", "a": 0, "d": 2}, {"st": "PS-B", "a": 4, "d": 6}], None, []),
}
NCALLS = {"N2-k1": 4, "N2-k2": 4, "N3-ev": 4, "N2-k3": 4, "N1-k1": 3, "N2-swap": 4}


def bounds(tier, seed):
    return {"alphabet": THOROUGH if tier == "thorough" else QUICK, "setups": list(SETUPS) if tier == "thorough" else ["N2-k1", "N2-k2", "N3-ev", "N2-swap"], "program_length": "one entry per invocation (3-4)"}


def programs(alpha, n):
    """all sequences of length n over alpha in which nothing follows a malformed entry"""
    good = [a for a in alpha if a not in MALFORMED]
    bad = [a for a in alpha if a in MALFORMED]
    for m in range(n + 1):  # position of the malformed entry (n = none)
        for pre in itertools.product(good, repeat=min(m, n)):
            if m == n:
                yield list(pre)
            else:
                for b in bad:
                    yield list(pre) + [b]


def space(tier, seed):
    b = bounds(tier, seed)
    items = []
    for su in b["setups"]:
        alpha = b["alphabet"]
        if su == "N1-k1":
            alpha = [a for a in alpha if not any(st == "PS-C" for st, _ in ALPHABET[a])]
        for prog in programs(alpha, NCALLS[su]):
            items.append({"setup": su, "prog": prog})
    return items


class ProgSched(BaseAlgorithm):
    def __init__(self, prog, k):
        super().__init__()
        self.prog = prog
        self.max_recompute = k
        self.n = 0

    def schedule(self, active_sessions):
        name = self.prog[self.n] if self.n < len(self.prog) else "empty"
        self.n += 1
        return S.materialise(ALPHABET[name])


def scenario(item):
    net, sess, k, rc = SETUPS[item["setup"]]
    ss = [dict(s, sid="ev%d" % i, e=60.0, cap=100.0, init=0.0, batt="ideal") for i, s in enumerate(sess)]
    scn = {"net": net, "sessions": ss, "k": k, "recompute": rc, "period": 5}
    if item["setup"] == "N2-swap":
        scn["two_phase"] = 4
    return scn


def snapshot(sim, evs):
    return (
        sim.pilot_signals.copy(),
        sim.charging_rates.copy(),
        {s: e.current_pilot for s, e in sim.network._EVSEs.items()},
        {k: (v.energy_delivered, v._battery._current_charge, v.current_charging_rate) for k, v in evs.items()},
        sim.iteration,
        float(sim.peak),
        # bookkeeping that decides whether the scheduler is asked again for this period
        (bool(sim._resolve), sim._last_schedule_update, None if sim.schedule_history is None else sorted(sim.schedule_history)),
        [(ts, e.event_type) for ts, e in sim.event_queue._queue],
    )


def same_snapshot(a, b):
    return (
        a[0].shape == b[0].shape
        and np.array_equal(a[0], b[0])
        and np.array_equal(a[1], b[1])
        and a[2] == b[2]
        and a[3] == b[3]
        and a[4] == b[4]
        and a[5] == b[5]
        and a[6] == b[6]
        and a[7] == b[7]
    )


def execute(item):
    scn = scenario(item)
    prog = item["prog"]
    viol = []
    out = lambda sig, what, o=None, e=None: viol.append((sig, what, o, e))
    snap = {}

    def on_return(rec, sessions, r, sched):
        r["name"] = prog[len(rec.calls) - 1] if len(rec.calls) - 1 < len(prog) else "empty"
        r["sched"] = sched
        snap["last"] = snapshot(rec.interface._simulator, holder["evs"])
        return sched

    holder = {}
    algo = ProgSched(prog, scn["k"])
    with warnings.catch_warnings(record=True):
        warnings.simplefilter("always")
        sim, rec, evs, periods = S.build_sim(scn, algo=algo, on_return=on_return, store_history=True)
        holder["evs"] = evs
        err = None
        try:
            sim.run()
            if rec.later:
                sim.update_scheduler(rec)  # the same scheduler object, registered again
                sim.event_queue.add_events(rec.later)
                sim.run()
        except Exception as exc:
            guard(exc)
            err = exc
    stations = sim.network.station_ids
    # ---- overlay model -----------------------------------------------------------
    P = {}
    overlaps = 0
    for c in rec.calls:
        ent = ALPHABET[c["name"]]
        if c["name"] in MALFORMED or not ent:
            continue
        t0 = c["t"]
        d = {st: r["v"] for st, r in ent}
        n = len(next(iter(d.values())))
        for st in stations:
            for j in range(n):
                if (st, t0 + j) in P:
                    overlaps += 1
                P[(st, t0 + j)] = float(d[st][j]) if st in d else 0.0
    bad = [c for c in rec.calls if c["name"] in MALFORMED]
    if bad:
        c = bad[0]
        exp_t = MALFORMED[c["name"]]
        if err is None:
            out("malformed:accepted:" + c["name"], "malformed schedule %s submitted at period %d was accepted" % (c["name"], c["t"]), None, exp_t.__name__)
        elif not isinstance(err, exp_t):
            out("malformed:wrong-error:" + c["name"], "malformed schedule %s raised %r, expected %s" % (c["name"], err, exp_t.__name__), repr(err), exp_t.__name__)
        after = snapshot(sim, evs)
        if not same_snapshot(snap["last"], after):
            out("malformed:state-changed:" + c["name"], "rejected schedule %s changed simulator state" % c["name"], None, None)
    elif err is not None:
        where = "last-call" if rec.calls and rec.calls[-1]["t"] == S.horizon_of(scn) else "earlier"
        out("exception:%s:%s:%s" % (type(err).__name__, rec.calls[-1]["name"] if rec.calls else "-", where), "run() raised %r at iteration %d after submissions %s" % (err, sim.iteration, [(c["t"], c["name"]) for c in rec.calls]), repr(err), None)
    # ---- per period: pilot applied to each EVSE -----------------------------------
    for p in periods:
        t = p["t"]
        for st in stations:
            exp = P.get((st, t), 0.0)
            # an unplugged station's EVSE resets its pilot only at unplug, i.e. before this period's pilots
            if p["pilot"][st] != exp:
                out("applied:period", "period %d station %s: applied pilot %s, schedules say %s (submissions %s)" % (t, st, p["pilot"][st], exp, [(c["t"], c["name"]) for c in rec.calls]), p["pilot"][st], exp)
                break
        else:
            continue
        break
    # ---- end: recorded matrix ------------------------------------------------------
    ps = sim.pilot_signals
    width = max([ps.shape[1]] + [t + 1 for (_, t) in P])
    done = False
    for i, st in enumerate(stations):
        for t in range(width):
            got = ps[i, t] if t < ps.shape[1] else 0.0
            exp = P.get((st, t), 0.0)
            if got != exp:
                out("recorded:matrix", "pilot_signals[%s,%d]=%s, schedules say %s (submissions %s)" % (st, t, got, exp, [(c["t"], c["name"]) for c in rec.calls]), float(got), exp)
                done = True
                break
        if done:
            break
    if ps.shape[0] != len(stations):
        out("recorded:shape", "pilot_signals has %d rows for %d stations" % (ps.shape[0], len(stations)), ps.shape[0], len(stations))
    return sim, rec, periods, viol, overlaps


def run(item):
    acc = Acc()
    sim, rec, periods, viol, overlaps = execute(item)
    acc.evals += 1
    acc.transitions += len(periods)
    for p in periods:
        acc.state((item["setup"], p["t"], tuple(p["pilot"].values()), tuple(sim.pilot_signals[:, p["t"] + 1 :].ravel()[:12])))
    acc.outcome((sim.iteration, len(rec.calls), float(sim.pilot_signals.sum())))
    if overlaps:
        acc.nt((item["setup"], tuple(item["prog"])))
    for sig, what, o, e in viol:
        acc.violation(sig, what, item, o, e)
    acc.sample(item, cap=3)
    return acc


def replay(item):
    _, _, _, viol, _ = execute(item)
    return [{"signature": s, "what": w, "observed": o, "expected": e} for s, w, o, e in viol]
