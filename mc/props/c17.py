"""C17 - tariff lookup is total, unambiguous and aligned with simulation time.

Exhaustive enumeration: 5 bundled tariff files x 14 calendar types (leap / non-leap x
weekday of Jan 1) x every day x a boundary-aligned time-of-day set (quick) or every minute
(thorough), against an independent lookup over the raw JSON (integer seconds, season
wrap-around, weekday class taken from the schedule's name). Vector lookups, the
Interface's price / demand-charge accessors at every scheduler invocation of small
simulations started next to midnights and season changes, and the analysis cost functions
are compared with per-period reference lookups.
"""
from __future__ import annotations

import calendar
import json
import os
import warnings
from datetime import datetime, timedelta

import numpy as np

from acnportal.signals.tariffs import tou_tariff as TT
from acnportal.signals.tariffs.tou_tariff import TimeOfUseTariff
from acnportal import acnsim

from mc.core import Acc, guard
from mc import simspace as S

ID = "C17"
LEVEL = "exploration"
TECHNIQUE = (
    "exhaustive enumeration of (tariff file x calendar type x day x time of day) on the real TimeOfUseTariff against an independent raw-JSON lookup; "
    "vector / Interface / analysis cost functions compared per period on bounded simulations"
)
RULE = (
    "5 files x 14 calendar types x every day x {every breakpoint, +-1 s, +-1 min, every hour, 23:59:59} (quick) or every minute of the day (thorough); "
    "get_tariffs for starts next to midnights/season ends x period {1,5,15,60} x length {1,13,300}; Interface.get_prices/get_demand_charge at every invocation of small runs; "
    "non-trivial = lookup within one minute of a breakpoint or on the first/last day of a season (incl. wrap-around seasons and Feb 29)"
)
ASSUMPTIONS = [
    "the weekday class of a schedule is read from its name (…-Weekday / …-Weekend / no suffix = all days), the convention every bundled file follows; the dow_mask field is what the implementation reads",
    "datetimes are naive local wall-clock times (the lookup reads month/day/weekday/hour/minute/second); seasons are month-day ranges, inclusive at both ends",
    "costs compared within 1e-9 relative (float sums over <= 300 periods)",
]
CHUNK = 1

FILES = [
    "pge_a10_tou_aug_2019",
    "sce_tou_ev_4_march_2019",
    "sce_tou_ev_4_march_2019_tou_periods_shifted",
    "sce_tou_ev_8_june_2019",
    "sce_tou_ev_8_oct_2018",
]
TDIR = os.path.join(os.path.dirname(TT.__file__), "tariff_schedules")


def calendar_years():
    """one year per calendar type (leap?, weekday of Jan 1): 14 years"""
    out = {}
    y = 2000
    while len(out) < 14:
        key = (calendar.isleap(y), datetime(y, 1, 1).weekday())
        out.setdefault(key, y)
        y += 1
    return sorted(out.values())


def bounds(tier, seed):
    return {"files": FILES, "years": calendar_years(), "times": "every minute" if tier == "thorough" else "breakpoints +-1s +-1min, hourly, 23:59:59", "vector_periods": [1, 5, 15, 60, 1440, 1500, 2880], "vector_lengths": [1, 13, 300]}


def space(tier, seed):
    items = []
    for f in FILES:
        for y in calendar_years():
            if tier == "thorough":
                for half in (0, 1):
                    items.append({"block": "lookup", "file": f, "year": y, "tier": tier, "half": half})
            else:
                items.append({"block": "lookup", "file": f, "year": y, "tier": tier})
        items.append({"block": "vector", "file": f, "tier": tier})
        for day in ((2019, 7, 10), (2020, 1, 18)):  # a summer Wednesday, a winter Saturday
            items.append({"block": "sweep", "file": f, "tier": tier, "day": list(day)})
        items.append({"block": "multiyear", "file": f, "tier": tier})
        items.append({"block": "sim", "file": f, "tier": tier})
    return items


# ---- reference ----------------------------------------------------------------
_RAW = {}


def raw(f):
    if f not in _RAW:
        with open(os.path.join(TDIR, f + ".json")) as fh:
            _RAW[f] = json.load(fh)
    return _RAW[f]


def md(s):
    a, b = s.split("-")
    return (int(a), int(b))


def day_class(s):
    name = s["id"].lower()
    if name.endswith("weekday") or name.endswith("weekdays"):
        return "WEEKDAYS"
    if name.endswith("weekend") or name.endswith("weekends"):
        return "WEEKENDS"
    return "ALL"


def ref_schedules(f, dt):
    out = []
    m = (dt.month, dt.day)
    wd = dt.weekday()
    for s in raw(f)["schedule"]:
        st, en = md(s["effective_start"]), md(s["effective_end"])
        in_season = (st <= m <= en) if st <= en else (m >= st or m <= en)
        cls = day_class(s)
        in_day = cls == "ALL" or (cls == "WEEKDAYS") == (wd < 5)
        if in_season and in_day:
            out.append(s)
    return out


def ref_price(s, dt):
    tod = dt.hour * 3600 + dt.minute * 60 + dt.second
    best = None
    for t, r in zip(s["times"], s["tariffs"]):
        ts = int(round(float(t) * 3600))
        if ts <= tod and (best is None or ts >= best[0]):
            best = (ts, float(r))
    return best[1]


def ref_lookup(f, dt):
    ms = ref_schedules(f, dt)
    if len(ms) != 1:
        return None, None, len(ms)
    return ref_price(ms[0], dt), ms[0]["demand_charge"], 1


def season_edges(f):
    ed = set()
    for s in raw(f)["schedule"]:
        ed.add(md(s["effective_start"]))
        ed.add(md(s["effective_end"]))
    ed |= {(1, 1), (12, 31), (2, 28), (2, 29), (3, 1)}
    return ed


def times_of_day(f, tier):
    if tier == "thorough":
        return [(h, m, 0) for h in range(24) for m in range(60)] + [(23, 59, 59), (0, 0, 1)]
    secs = set()
    for s in raw(f)["schedule"]:
        for t in s["times"]:
            b = int(round(float(t) * 3600))
            for o in (0, 1, -1, 60, -60):
                secs.add((b + o) % 86400)
    for h in range(24):
        secs.add(h * 3600)
    secs.add(86399)
    return sorted((x // 3600, (x % 3600) // 60, x % 60) for x in secs)


def compare_lookup(tariff, f, dt, rep, stats, via="get_tariff"):
    want_p, want_dc, n = ref_lookup(f, dt)
    stats["n"] += 1
    season = "%02d" % dt.month
    try:
        got = tariff.get_tariff(dt)
        got_dc = tariff.get_demand_charge(dt)
    except ValueError as exc:
        kind = "ambiguous" if "More than one" in str(exc) else ("none" if "No valid" in str(exc) else "error")
        wclass = "weekday" if dt.weekday() < 5 else "weekend"
        sname = ref_schedules(f, dt)[0]["id"] if n == 1 else "?"
        rep("lookup:%s:%s:%s" % (kind, f, sname), "%s: get_tariff(%s) raised %s; the raw file has %d schedule(s) for that date (%s)" % (f, dt, exc, n, sname), str(exc), want_p, {"dt": dt.isoformat()})
        return
    if n != 1:
        rep("lookup:reference-not-unique:%s" % f, "%s: %d schedules apply on %s by the raw file, the lookup returned %r" % (f, n, dt, got), got, None, {"dt": dt.isoformat()})
        return
    if got != want_p:
        edges = season_edges(f)
        where = "season-edge" if (dt.month, dt.day) in edges else "in-season"
        tod = dt.hour * 3600 + dt.minute * 60 + dt.second
        near = any(abs(int(round(float(t) * 3600)) - tod) <= 60 for s in raw(f)["schedule"] for t in s["times"])
        rep("lookup:price:%s:%s" % (where, "near-breakpoint" if near else "between-breakpoints"), "%s: get_tariff(%s) = %r, the rate of the latest breakpoint at or before that time is %r" % (f, dt, got, want_p), got, want_p, {"dt": dt.isoformat()})
    if got_dc != want_dc:
        rep("lookup:demand-charge", "%s: get_demand_charge(%s) = %r, expected %r" % (f, dt, got_dc, want_dc), got_dc, want_dc, {"dt": dt.isoformat()})


def run_lookup(item, only=None):
    f, y, tier = item["file"], item["year"], item["tier"]
    viol, stats = [], {"n": 0, "nt": set(), "out": set()}

    def rep(sig, what, o=None, e=None, ctx=None):
        if len(viol) < 25:
            viol.append((sig, what, o, e, ctx))

    tariff = TimeOfUseTariff(f)
    if only is not None:
        compare_lookup(tariff, f, datetime.fromisoformat(only["dt"]), rep, stats)
        return viol, stats
    tods = times_of_day(f, tier)
    edges = season_edges(f)
    bps = sorted({int(round(float(t) * 3600)) for s in raw(f)["schedule"] for t in s["times"]})
    d = datetime(y, 1, 1)
    half = item.get("half")
    while d.year == y:
        if half is None or (d.month <= 6) == (half == 0):
            edge = (d.month, d.day) in edges
            for h, m, s in tods:
                dt = d.replace(hour=h, minute=m, second=s)
                compare_lookup(tariff, f, dt, rep, stats)
                tod = h * 3600 + m * 60 + s
                if edge or any(abs(b - tod) <= 60 for b in bps):
                    stats["nt"].add((f, y, d.month, d.day, tod))
            ms = ref_schedules(f, d)
            stats["out"].add((f, ms[0]["id"] if len(ms) == 1 else len(ms)))
        d += timedelta(days=1)
    return viol, stats


def run_multiyear(item, only=None):
    """ONE tariff object answers for the same calendar day in all 14 calendar types in turn (a lookup must not
    depend on what the object was asked before)"""
    f = item["file"]
    viol, stats = [], {"n": 0, "nt": set(), "out": set()}

    def rep(sig, what, o=None, e=None, ctx=None):
        if len(viol) < 25:
            viol.append((sig, what, o, e, ctx))

    tariff = TimeOfUseTariff(f)
    years = calendar_years()
    tods = [(0, 0, 0), (13, 0, 0), (20, 30, 0)]
    d = datetime(2001, 1, 1)  # iterate month/day of a non-leap year, plus Feb 29 where it exists
    mds = []
    while d.year == 2001:
        mds.append((d.month, d.day))
        d += timedelta(days=1)
    mds.append((2, 29))
    for (m, dd) in mds:
        for y in years:
            try:
                base = datetime(y, m, dd)
            except ValueError:
                continue
            for h, mi, sec in tods:
                compare_lookup(tariff, f, base.replace(hour=h, minute=mi, second=sec), lambda sig, what, o=None, e=None, ctx=None: rep(sig + ":one-object-many-years", what, o, e, ctx), stats)
        classes = {ref_schedules(f, datetime(y, m, dd))[0]["id"] for y in years if not (m == 2 and dd == 29 and not calendar.isleap(y)) and len(ref_schedules(f, datetime(y, m, dd))) == 1}
        stats["out"].add((f, len(classes)))
        if len(classes) > 1:
            stats["nt"].add((f, m, dd))
    return viol, stats


def run_vector(item, only=None):
    f, tier = item["file"], item["tier"]
    viol, stats = [], {"n": 0, "nt": set(), "out": set()}

    def rep(sig, what, o=None, e=None, ctx=None):
        if len(viol) < 25:
            viol.append((sig, what, o, e, ctx))

    tariff = TimeOfUseTariff(f)
    starts = []
    years = calendar_years() if tier == "thorough" else [2019, 2020, 2023]
    for y in years:
        for (m, d_) in sorted(season_edges(f)):
            try:
                base = datetime(y, m, d_)
            except ValueError:
                continue
            for hh, mm, ss in ((23, 50, 0), (0, 0, 0), (7, 59, 30), (15, 45, 0)):
                starts.append(base.replace(hour=hh, minute=mm, second=ss))
    for st in starts:
        for period in (1, 5, 15, 60, 1440, 1500, 2880):
            for length in (1, 13, 300) if period < 1440 else (1, 9):
                ctx = {"start": st.isoformat(), "period": period, "length": length}
                if only is not None and only != ctx:
                    continue
                stats["n"] += 1
                ref = [ref_lookup(f, st + timedelta(minutes=period * k))[0] for k in range(length)]
                if any(r is None for r in ref):
                    continue  # the single-instant block reports totality problems
                try:
                    got = tariff.get_tariffs(st, length, period)
                except Exception as exc:
                    guard(exc)
                    rep("vector:exception:%s" % type(exc).__name__, "%s: get_tariffs(%s, %d, %d) raised %r" % (f, st, length, period, exc), repr(exc), None, ctx)
                    continue
                if list(got) != ref:
                    k = next((i for i in range(min(len(got), len(ref))) if got[i] != ref[i]), None)
                    rep("vector:%s" % ("length" if len(got) != len(ref) else "entry"), "%s: get_tariffs(%s, %d, %d) differs from per-period lookups at index %r (%r vs %r)" % (f, st, length, period, k, got[k] if k is not None else len(got), ref[k] if k is not None else len(ref)), list(got)[:20], ref[:20], ctx)
                stats["out"].add((f, len(set(ref))))
                if len(set(ref)) > 1:
                    stats["nt"].add((f, st.isoformat(), period, length))
    return viol, stats


def run_sweep(item, only=None):
    """price vectors from EVERY start of a grid over one day (a summer weekday, a winter weekend day): whatever the
    start and the period, element k is the single lookup at start + k x period - in particular where start + k x period
    falls exactly on a breakpoint"""
    f, tier, (y, m, d_) = item["file"], item["tier"], item["day"]
    viol, stats = [], {"n": 0, "nt": set(), "out": set()}
    tariff = TimeOfUseTariff(f)
    base = datetime(y, m, d_)
    cache = {}

    def ref(dt):
        if dt not in cache:
            cache[dt] = ref_lookup(f, dt)[0]
        return cache[dt]

    menus = [(5, 5, 288), (1, 7, 600), (20, 20, 72), (2, 14, 360), (4, 28, 180), (10, 10, 144)] if tier == "thorough" else [(5, 5, 288), (20, 20, 72), (1, 37, 600)]
    for period, step, length in menus:
        for start_min in range(0, 1440, step):
            st = base + timedelta(minutes=start_min)
            ctx = {"start": st.isoformat(), "period": period, "length": length}
            if only is not None and only != ctx:
                continue
            stats["n"] += 1
            want = [ref(st + timedelta(minutes=period * k)) for k in range(length)]
            if any(r is None for r in want):
                continue
            try:
                got = list(tariff.get_tariffs(st, length, period))
            except Exception as exc:
                guard(exc)
                viol.append(("sweep:exception:%s" % type(exc).__name__, "%s: get_tariffs(%s, %d, %d) raised %r" % (f, st, length, period, exc), repr(exc), None, ctx))
                return viol, stats
            if got != want:
                k = next((i for i in range(min(len(got), len(want))) if got[i] != want[i]), None)
                on_bp = k is not None and (st + timedelta(minutes=period * k)).minute == 0
                viol.append(("sweep:entry%s" % (":on-a-breakpoint" if on_bp else ""), "%s: get_tariffs(%s, %d, %d)[%r] = %r, the lookup at %s gives %r" % (f, st, length, period, k, got[k] if k is not None else len(got), st + timedelta(minutes=period * (k or 0)), want[k] if k is not None else len(want)), got[:5], want[:5], ctx))
                if len(viol) > 5:
                    return viol, stats
            stats["out"].add((f, len(set(want))))
            if len(set(want)) > 1 and st.minute != 0:
                stats["nt"].add((f, st.isoformat(), period))
    return viol, stats


class PriceProbe(S.Scripted):
    """scripted scheduler that also queries the interface's price accessors at every invocation"""

    def __init__(self, prog, log, swap_at=None, swap=None):
        super().__init__(prog)
        self.log = log
        self.swap_at, self.swap = swap_at, swap

    def schedule(self, active_sessions):
        t = self.interface.current_time
        if self.swap is not None and t == self.swap_at:
            self.swap()  # the owner of the simulation replaces its tariff signal from this period on
        rec = {"t": t}
        for n in (1, 4):
            rec["prices_%d" % n] = list(self.interface.get_prices(n))
        rec["prices_at_2"] = list(self.interface.get_prices(3, start=2))
        rec["prices_at_0"] = list(self.interface.get_prices(2, start=0))
        rec["dc"] = self.interface.get_demand_charge()
        rec["dc_at_0"] = self.interface.get_demand_charge(start=0)
        self.log.append(rec)
        return super().schedule(active_sessions)


def run_sim(item, only=None):
    f, tier = item["file"], item["tier"]
    viol, stats = [], {"n": 0, "nt": set(), "out": set()}

    def rep(sig, what, o=None, e=None, ctx=None):
        if len(viol) < 25:
            viol.append((sig, what, o, e, ctx))

    edges = sorted(season_edges(f))
    starts = []
    for (m, d_) in edges:
        for y in (2019, 2020):
            try:
                base = datetime(y, m, d_)
            except ValueError:
                continue
            starts.append(base.replace(hour=23, minute=55))
            starts.append(base.replace(hour=7, minute=57))
            if tier == "thorough":
                starts.append(base.replace(hour=15, minute=58))
                starts.append(base.replace(hour=20, minute=59, second=30))
    sessions = [
        {"st": "PS-A", "a": 0, "d": 6, "sid": "ev0", "batt": "ideal", "e": 30.0, "cap": 100.0, "init": 0.0, "pmax": 7.0},
        {"st": "PS-C", "a": 2, "d": 9, "sid": "ev1", "batt": "l2c", "e": 2.0, "cap": 10.0, "init": 7.8, "pmax": 6.6},
        {"st": "PS-B", "a": 3, "d": 5, "sid": "ev2", "batt": "ideal", "e": 0.5, "cap": 3.0, "init": 1.0, "pmax": 7.0},
    ]
    # simulations whose start is an aware (pytz-localized) datetime and which run across a daylight-saving change: simulation
    # time is start + k x period (datetime arithmetic on the start as given)
    import pytz

    la = pytz.timezone("America/Los_Angeles")
    aware = [la.localize(datetime(2019, 11, 3, 0, 30)), la.localize(datetime(2020, 3, 8, 0, 30)), la.localize(datetime(2019, 7, 10, 0, 30))]
    plan = [(st, period) for st in starts for period in ((1, 5, 8) if tier == "quick" else (1, 5, 15, 8, 45, 90))]  # 8, 45, 90: periods that do not divide an hour
    plan += [(st, period) for st in aware for period in (60, 30)]
    for st, period in plan:
        if True:
            ctx = {"start": st.isoformat(), "period": period}
            if only is not None and only != ctx:
                continue
            tariff = TimeOfUseTariff(f)
            log = []
            algo = PriceProbe({"rule": "altcol", "len": 1}, log)
            algo.max_recompute = 1
            scn = {"net": "N2", "sessions": sessions, "period": period, "k": 1, "signals": {"tariff": tariff}}
            with warnings.catch_warnings():
                warnings.simplefilter("ignore")
                sim, rec, evs, periods = S.build_sim(scn, algo=algo)
                sim.start = st
                try:
                    sim.run()
                except Exception as exc:
                    guard(exc)
                    n_amb = [ref_lookup(f, st + timedelta(minutes=period * k))[2] for k in range(14)]
                    if any(x != 1 for x in n_amb):
                        continue  # totality problem, reported by the lookup block
                    rep("sim:exception:%s" % type(exc).__name__, "%s: run with tariff raised %r" % (f, exc), repr(exc), None, ctx)
                    continue
            stats["n"] += len(log)
            P = lambda k: ref_lookup(f, st + timedelta(minutes=period * k))[0]
            D = lambda k: ref_lookup(f, st + timedelta(minutes=period * k))[1]
            for r in log:
                t = r["t"]
                if r["prices_1"] != [P(t)] or r["prices_4"] != [P(t + k) for k in range(4)]:
                    rep("interface:get_prices", "%s: at iteration %d get_prices(4) = %s, per-period lookups from start+t*period give %s" % (f, t, r["prices_4"], [P(t + k) for k in range(4)]), r["prices_4"], [P(t + k) for k in range(4)], ctx)
                    break
                if r["prices_at_2"] != [P(2 + k) for k in range(3)]:
                    rep("interface:get_prices:start", "%s: get_prices(3, start=2) = %s, expected %s" % (f, r["prices_at_2"], [P(2 + k) for k in range(3)]), r["prices_at_2"], None, ctx)
                    break
                if r["prices_at_0"] != [P(0), P(1)]:
                    rep("interface:get_prices:start", "%s: at iteration %d get_prices(2, start=0) = %s, expected %s" % (f, t, r["prices_at_0"], [P(0), P(1)]), r["prices_at_0"], None, ctx)
                    break
                if r["dc"] != D(t) or r["dc_at_0"] != D(0):
                    rep("interface:get_demand_charge", "%s: get_demand_charge() at iteration %d = %r, expected %r" % (f, t, r["dc"], D(t)), r["dc"], D(t), ctx)
                    break
            # ---- the simulation's tariff signal is replaced mid-run: every later answer is about the new tariff
            other_f = FILES[(FILES.index(f) + 1) % len(FILES)]
            if st in starts and starts.index(st) < 2 and all(ref_lookup(other_f, st + timedelta(minutes=period * k))[2] == 1 for k in range(14)):
                log2 = []
                holder = {}
                other_t = TimeOfUseTariff(other_f)
                algo2 = PriceProbe({"rule": "altcol", "len": 1}, log2, swap_at=4, swap=lambda: holder["sim"].signals.__setitem__("tariff", other_t))
                algo2.max_recompute = 1
                scn2 = {"net": "N2", "sessions": sessions, "period": period, "k": 1, "signals": {"tariff": TimeOfUseTariff(f)}}
                with warnings.catch_warnings():
                    warnings.simplefilter("ignore")
                    sim2, _, _, _ = S.build_sim(scn2, algo=algo2)
                    sim2.start = st
                    holder["sim"] = sim2
                    sim2.run()
                stats["n"] += len(log2)
                for r in log2:
                    t = r["t"]
                    ff = f if t < 4 else other_f
                    P2 = lambda k: ref_lookup(ff, st + timedelta(minutes=period * k))[0]
                    exp = {"prices_4": [P2(t + k) for k in range(4)], "prices_at_2": [P2(2 + k) for k in range(3)], "prices_at_0": [P2(0), P2(1)], "dc": ref_lookup(ff, st + timedelta(minutes=period * t))[1]}
                    bad = [k for k in exp if r[k] != exp[k]]
                    if bad:
                        rep("interface:tariff-replaced-mid-run:%s" % bad[0], "%s -> %s from period 4: at iteration %d %s = %s, the tariff then in force gives %s" % (f, other_f, t, bad[0], r[bad[0]], exp[bad[0]]), r[bad[0]], exp[bad[0]], ctx)
                        break
            # analysis cost functions on the completed run
            ids = sim.network.station_ids
            volt = {sid: S.NETS["N2"]["stations"][sid][1] for sid in ids}
            T = sim.charging_rates.shape[1]
            power = [sum(sim.charging_rates[i, k] * volt[sid] / 1000.0 for i, sid in enumerate(ids)) for k in range(T)]
            want_cost = sum(P(k) * power[k] * (period / 60.0) for k in range(T))
            want_dc = D(0) * max(power)
            with warnings.catch_warnings():
                warnings.simplefilter("ignore")
                got_cost = acnsim.energy_cost(sim)
                got_cost2 = acnsim.energy_cost(sim, tariff)
                got_dc = acnsim.demand_charge(sim)
            stats["n"] += 2
            # an explicitly passed tariff wins over the simulation's own signal
            other_f = FILES[(FILES.index(f) + 1) % len(FILES)]
            other = TimeOfUseTariff(other_f)
            n_ok = all(ref_lookup(other_f, st + timedelta(minutes=period * k))[2] == 1 for k in range(T))
            if n_ok:
                with warnings.catch_warnings():
                    warnings.simplefilter("ignore")
                    g_cost_o = acnsim.energy_cost(sim, other)
                    g_dc_o = acnsim.demand_charge(sim, other)
                w_cost_o = sum(ref_lookup(other_f, st + timedelta(minutes=period * k))[0] * power[k] * (period / 60.0) for k in range(T))
                w_dc_o = ref_lookup(other_f, st)[1] * max(power)
                stats["n"] += 2
                if abs(g_cost_o - w_cost_o) > 1e-9 * max(1.0, abs(w_cost_o)):
                    rep("analysis:energy_cost:explicit-tariff", "%s: energy_cost(sim, %s) = %r, that tariff's prices give %r" % (f, other_f, g_cost_o, w_cost_o), g_cost_o, w_cost_o, ctx)
                if abs(g_dc_o - w_dc_o) > 1e-9 * max(1.0, abs(w_dc_o)):
                    rep("analysis:demand_charge:explicit-tariff", "%s: demand_charge(sim, %s) = %r, that tariff's rate gives %r" % (f, other_f, g_dc_o, w_dc_o), g_dc_o, w_dc_o, ctx)
            if abs(got_cost - want_cost) > 1e-9 * max(1.0, abs(want_cost)) or got_cost != got_cost2:
                rep("analysis:energy_cost", "%s: energy_cost = %r, sum(price x power x dt) = %r" % (f, got_cost, want_cost), got_cost, want_cost, ctx)
            if abs(got_dc - want_dc) > 1e-9 * max(1.0, abs(want_dc)):
                rep("analysis:demand_charge", "%s: demand_charge = %r, demand rate x peak power = %r" % (f, got_dc, want_dc), got_dc, want_dc, ctx)
            prices = {P(k) for k in range(T)}
            stats["out"].add((f, len(prices), round(want_cost, 6) > 0))
            if len(prices) > 1 and want_cost > 0:
                stats["nt"].add((f, st.isoformat(), period))
    return viol, stats


def execute(item, only=None):
    return {"sweep": run_sweep, "lookup": run_lookup, "vector": run_vector, "sim": run_sim, "multiyear": run_multiyear}[item["block"]](item, only)


def run(item):
    acc = Acc()
    viol, st = execute(item)
    acc.evals += st["n"]
    acc.count("lookups_" + item["block"], st["n"])
    for o in st["out"]:
        acc.outcome(o)
    for n in st["nt"]:
        acc.nt(n)
    for sig, what, o, e, ctx in viol:
        acc.violation(sig, what, dict(item, only=ctx), o, e)
    acc.sample({k: v for k, v in item.items() if k != "tier"}, cap=3)
    return acc


def replay(scn):
    item = {k: v for k, v in scn.items() if k != "only"}
    viol, _ = execute(item, only=scn.get("only"))
    if not viol:
        # a lookup may depend on what the same tariff object was asked before: re-execute the whole item
        viol, _ = execute(item, only=None)
    return [{"signature": v[0], "what": v[1], "observed": v[2], "expected": v[3]} for v in viol]
