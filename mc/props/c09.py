"""C09 - interrupted / serialised / resumed runs equal the uninterrupted run.

Fault enumeration on the real Simulator: for every scenario of a bounded space the
uninterrupted reference run R is executed; then, for EVERY scheduler invocation of R
(= every point at which "an exception raised from the scheduling algorithm" can
interrupt run()), the run is interrupted there - before or after the wrapped algorithm
computed its answer - and continued either by calling run() again or through
to_json -> from_json -> update_scheduler -> run(). Thorough tier: every ordered PAIR of
interruption points (second >= first) x modes. The four observables the property names
must equal R's; after a load the object graph must carry the complete state and the
EV sharing the property names.
"""
from __future__ import annotations

import itertools
import json
import warnings

import numpy as np

from acnportal.acnsim import Simulator

from mc.core import Acc, guard
from mc import simspace as S

ID = "C09"
LEVEL = "fault_enumeration"
TECHNIQUE = (
    "exhaustive enumeration of interruption points (every scheduler invocation of every bounded scenario, before/after the algorithm's own work; "
    "thorough: every ordered pair) x continuation mode (run() again | JSON round trip + update_scheduler) on the real Simulator, differential against the uninterrupted run"
)
RULE = (
    "scenarios = session k-subsets (station x arrival x stay x battery kind) on networks holding every EVSE class x scheduler/max_recompute/recompute-event/"
    "schedule-history configurations; per scenario every scheduler invocation period is a crash point, x {before, after} the algorithm x {resume, json}; "
    "state = canonical simulator state at the interruption; non-trivial = interruption with an EV connected and >=1 event still pending"
)
ASSUMPTIONS = [
    "the interruption is an exception raised from the scheduler's schedule() (before or after the wrapped algorithm ran), as the property states; other interruption sources are out of scope",
    "naive datetimes for start (the dump format drops tzinfo, which is not among the property's observables); battery noise off",
    "after a load the SAME scheduler object is re-attached with update_scheduler ('given its scheduler again'); schedulers are stateless w.r.t. past invocations (scripted by period, uncontrolled, FCFS greedy)",
    "small scope: <=3 stations, <=3 sessions, <=8 periods; pilots/rates compared zero-padded to a common width",
]
CHUNK = 6


class Crash(Exception):
    pass


class Interrupt(BaseException):
    """an interruption that is not an `Exception` (what Ctrl-C or a solver time-out built on BaseException looks like)"""


def sess(st, a, stay, kind, i=0):
    s = {"st": st, "a": a, "d": a + stay, "kind": kind}
    if kind == "big":
        s.update(batt="ideal", e=40.0 + i, cap=100.0, init=0.0, pmax=7.0)
    elif kind == "small":  # satisfied during the stay
        s.update(batt="ideal", e=0.21 + 0.01 * i, cap=1.0, init=0.3, pmax=7.0)
    elif kind == "l2c":
        s.update(batt="l2c", e=2.1 + 0.1 * i, cap=10.0, init=7.7, pmax=7.0)
    elif kind == "l2s":
        s.update(batt="l2s", e=1.4 + 0.1 * i, cap=10.0, init=7.9, pmax=6.0)
    return s


CFGS = {
    "alt1-k1": ({"kind": "script", "prog": {"rule": "alt", "len": 1}}, 1, [], False),
    "alt3-k2-h": ({"kind": "script", "prog": {"rule": "alt", "len": 3}}, 2, [], True),
    "alt3-kN-rc": ({"kind": "script", "prog": {"rule": "alt", "len": 3}}, None, [2], False),
    "max1-k3": ({"kind": "script", "prog": {"rule": "max", "len": 1}}, 3, [1], True),
    "unc-kN": ({"kind": "unc"}, None, [], False),
    "unc-k1-rc-h": ({"kind": "unc"}, 1, [0, 5], True),
    "fcfs-k1": ({"kind": "greedy", "sort": "fcfs"}, 1, [], False),
    "fcfs-kN-rc-h": ({"kind": "greedy", "sort": "fcfs"}, None, [2], True),
}


def bounds(tier, seed):
    return {
        "tier": tier,
        "kmax": 2 if tier == "quick" else 3,
        "crash_points": "every scheduler invocation" + ("" if tier == "quick" else " and every ordered pair of them"),
        "modes": ["resume", "json", "interrupt (single interruptions: resume after an exception that is not an Exception subclass)"],
        "positions": ["before", "after"],
        "configs": sorted(CFGS),
    }


def space(tier, seed):
    thorough = tier == "thorough"
    items = []
    for netname in ("N3", "N2"):
        stations = list(S.NETS[netname]["stations"])
        kinds = ("big", "small", "l2c", "l2s")
        arrivals = (0, 1, 2) if thorough else (0, 1)
        stays = (1, 2, 4) if thorough else (1, 3)
        pool, i = [], 0
        for st in stations:
            for a in arrivals:
                for sy in stays:
                    for kd in kinds:
                        pool.append(sess(st, a, sy, kd, i))
                        i += 1
        cfgs = [c for c in sorted(CFGS) if not (netname == "N3" and CFGS[c][0]["kind"] != "script")]
        for ss in S.session_subsets(pool, 1, 2):
            if len(ss) == 2:
                a, b = ss
                # 2-subsets: same station (reuse), or sharing an event period, or overlapping stays
                if not (a["st"] == b["st"] or {a["a"], a["d"]} & {b["a"], b["d"]} or (a["a"] < b["d"] and b["a"] < a["d"])):
                    continue
                if not thorough and a["kind"] == b["kind"] and a["st"] != b["st"] and a["kind"] != "big":
                    continue
            for c in cfgs:
                # single-session histories run with a period that is not a whole number of minutes
                items.append({"net": netname, "sessions": ss, "cfg": c, "pairs": False, "period": 2.5 if len(ss) == 1 else 5})
        if thorough:
            # every ordered pair of interruption points on a reduced session alphabet, and 3-subsets with single points
            pool2 = [sess(st, a, sy, kd, j) for j, (st, a, sy, kd) in enumerate(itertools.product(stations, (0, 1), (1, 3), ("big", "small", "l2c")))]
            for ss in S.session_subsets(pool2, 1, 2):
                for c in cfgs:
                    items.append({"net": netname, "sessions": ss, "cfg": c, "pairs": True})
            pool3 = [sess(st, a, sy, kd, j) for j, (st, a, sy, kd) in enumerate(itertools.product(stations, (0, 1), (1, 2), ("big", "l2s")))]
            for ss in S.session_subsets(pool3, 3, 3):
                for c in ("alt3-k2-h", "unc-k1-rc-h", "fcfs-kN-rc-h") if netname != "N3" else ("alt3-k2-h", "max1-k3"):
                    items.append({"net": netname, "sessions": ss, "cfg": c, "pairs": False})
    # ---- a two-level finite-rate EVSE (off / 16 A) under the sorted algorithm and scripts
    for a, sy, kd in itertools.product((0, 1), (2, 3), ("big", "small")):
        for other in (None, ("PS-A", 0, 3, "big"), ("PS-C", 1, 2, "l2c")):
            ss = [dict(sess("PS-B", a, sy, kd, 0), sid="ev0")] + ([dict(sess(*other, 1), sid="ev1")] if other else [])
            for c in ("fcfs-k1", "fcfs-kN-rc-h", "unc-k1-rc-h"):
                items.append({"net": "N13", "sessions": ss, "cfg": c, "pairs": False, "period": 7.5 if kd == "small" else 5})
    # ---- the same vehicle twice: two sessions built around ONE Battery object (the second continues where the first stopped)
    for st2, a2 in (("PS-A", 3), ("PS-A", 4), ("PS-C", 2)):
        # two-stage battery in its ramp-down region: what the second visit draws depends on what the first one stored
        ss = [dict(sess("PS-A", 0, 3, "l2c", 0), sid="ev0"), dict(sess(st2, a2, 2, "l2c", 1), sid="ev1", batt_of="ev0")]
        for c in sorted(CFGS):
            items.append({"net": "N2", "sessions": ss, "cfg": c, "pairs": False})
    return items


def scenario(item):
    sched, k, rc, hist = CFGS[item["cfg"]]
    scn = {"net": item["net"], "sessions": item["sessions"], "sched": sched, "k": k, "recompute": rc, "period": item.get("period", 5)}
    # pending recompute requests carry a user-chosen precedence (still after plug-ins): a dump must carry it
    scn["rc_prec"] = 27
    # stations are registered (and constraints inserted) in a non-alphabetical order: a dump/load that
    # re-orders the station map (but not the parallel arrays) must be visible
    scn["order"] = ["PS-C", "PS-A", "PS-B"]
    scn["corder"] = [2, 0, 3, 1]
    return scn, hist


# ----------------------------------------------------------------------------
def observables(sim):
    return {
        "pilots": np.array(sim.pilot_signals, dtype=float),
        "rates": np.array(sim.charging_rates, dtype=float),
        "energy": {k: float(v.energy_delivered) for k, v in sim.ev_history.items()},
        "events": S.events_key(sim),
        "iteration": sim.iteration,
    }


def pad_equal(a, b):
    w = max(a.shape[1], b.shape[1])
    if a.shape[0] != b.shape[0]:
        return False
    A = np.zeros((a.shape[0], w))
    B = np.zeros((a.shape[0], w))
    A[:, : a.shape[1]] = a
    B[:, : b.shape[1]] = b
    return bool(np.array_equal(A, B))


def snapshot(sim):
    """the complete simulator state the property says a dump must carry (canonical, identity-free)"""
    net = sim.network
    q = [(ts, e.event_type, e.precedence, getattr(getattr(e, "ev", None), "session_id", None)) for ts, e in sim.event_queue._queue]
    evses = {}
    for sid in net.station_ids:
        e = net._EVSEs[sid]
        ev = e.ev
        evses[sid] = (
            type(e).__name__,
            float(e.current_pilot),
            None
            if ev is None
            else (
                ev.session_id,
                ev.arrival,
                ev.departure,
                ev.estimated_departure,
                float(ev.requested_energy),
                float(ev.energy_delivered),
                float(ev.current_charging_rate),
                type(ev._battery).__name__,
                float(ev._battery._current_charge),
                float(ev._battery._current_charging_power),
                float(ev._battery._capacity),
                float(ev._battery._init_charge),
            ),
        )
    return {
        "iteration": sim._iteration,
        "resolve": bool(sim._resolve),
        "last_update": sim._last_schedule_update,
        "peak": float(sim.peak),
        "max_recompute": sim.max_recompute,
        "period": sim.period,
        "start": sim.start,
        "schedule_history": None if sim.schedule_history is None else json.dumps({int(k): v for k, v in sim.schedule_history.items()}, sort_keys=True, default=lambda o: np.asarray(o).tolist()),
        "pilots": np.array(sim.pilot_signals, dtype=float).tolist(),
        "rates": np.array(sim.charging_rates, dtype=float).tolist(),
        "queue": q,
        "evses": evses,
        "station_ids": list(net.station_ids),
        "cm": None if net.constraint_matrix is None else np.asarray(net.constraint_matrix).tolist(),
        "mag": np.asarray(net.magnitudes).tolist(),
        "cidx": list(net.constraint_index),
        # what the network advertises about its stations (cached description used by Interface and the algorithms)
        "advertised": [
            (sid, float(net.max_pilot_signals[i]), float(net.min_pilot_signals[i]), [float(x) for x in net.allowable_rates[i]], bool(net.is_continuous[i]))
            for i, sid in enumerate(net.station_ids)
        ],
        "volt": np.asarray(net._voltages).tolist(),
        "phase": np.asarray(net._phase_angles).tolist(),
        "ev_history": {k: (float(v.energy_delivered), float(v._battery._current_charge)) for k, v in sim.ev_history.items()},
        "event_history": S.events_key(sim),
    }


def sharing_violations(sim):
    out = []
    net = sim.network
    for sid in net.station_ids:
        ev = net.get_ev(sid)
        if ev is not None and sim.ev_history.get(ev.session_id) is not ev:
            out.append("EV at station %s is not the object in ev_history[%s]" % (sid, ev.session_id))
    for ts, e in sim.event_queue._queue:
        ev = getattr(e, "ev", None)
        if ev is None:
            continue
        if ev.session_id in sim.ev_history and sim.ev_history[ev.session_id] is not ev:
            out.append("pending %s event at %d holds a private copy of session %s" % (e.event_type, ts, ev.session_id))
    for e in sim.event_history:
        ev = getattr(e, "ev", None)
        if ev is not None and sim.ev_history.get(ev.session_id) is not ev:
            out.append("event_history %s event holds a private copy of session %s" % (e.event_type, ev.session_id))
    return out


class Driver:
    """runs one scenario with a list of planned interruptions [(period, position, mode), ...]"""

    def __init__(self, scn, hist, plan):
        self.scn, self.hist = scn, hist
        self.plan = list(plan)
        self.viol = []
        self.states = []
        self.nontrivial = 0

    def on_call(self, rec, active, r):
        if self.plan and self.plan[0][1] == "before" and self.plan[0][0] == r["t"]:
            raise (Interrupt if self.plan[0][2] == "interrupt" else Crash)("before@%d" % r["t"])

    def on_return(self, rec, active, r, out):
        if self.plan and self.plan[0][1] == "after" and self.plan[0][0] == r["t"]:
            raise (Interrupt if self.plan[0][2] == "interrupt" else Crash)("after@%d" % r["t"])
        return out

    def attach_monitor(self, sim):
        hz = S.horizon_of(self.scn) + 3

        def mon(n):
            if sim._iteration > hz:
                raise S.Watchdog("still running at period %d" % sim._iteration)

        sim.network._mon = mon

    def execute(self):
        sim, rec, evs, _ = S.build_sim(self.scn, on_call=self.on_call, on_return=self.on_return, store_history=self.hist, monitor=False)
        self.attach_monitor(sim)
        guard = 0
        while True:
            guard += 1
            if guard > 20:
                raise RuntimeError("driver did not finish")
            try:
                sim.run()
                break
            except (Crash, Interrupt):
                t, pos, mode = self.plan.pop(0)
                snap = snapshot(sim)
                self.states.append((self.scn["net"], self.scn["k"], repr(sorted(snap["evses"].items())), repr(snap["queue"]), snap["iteration"], snap["resolve"], snap["last_update"], mode))
                if any(v[2] is not None for v in snap["evses"].values()) and snap["queue"]:
                    self.nontrivial += 1
                if mode == "json":
                    with warnings.catch_warnings():
                        warnings.simplefilter("ignore")
                        dump = sim.to_json()
                        sim2 = Simulator.from_json(dump)
                    snap2 = snapshot(sim2)
                    for key in snap:
                        if snap[key] != snap2[key]:
                            self.viol.append(("json:state-lost:%s" % key, "state after from_json(to_json()) at period %d differs in %s" % (t, key), snap2[key], snap[key]))
                    for msg in sharing_violations(sim2):
                        self.viol.append(("json:sharing", msg + " (after load at period %d)" % t, None, None))
                    if type(sim2.network) is not type(sim.network):
                        self.viol.append(("json:class", "network class changed", type(sim2.network).__name__, type(sim.network).__name__))
                    sim2.update_scheduler(rec)
                    if sim2.max_recompute != sim.max_recompute:
                        self.viol.append(("json:max_recompute", "max_recompute changed by re-attaching the scheduler", sim2.max_recompute, sim.max_recompute))
                    sim = sim2
                    self.attach_monitor(sim)
            except S.Watchdog as e:
                self.viol.append(("termination:watchdog", str(e), None, None))
                break
        self.sim, self.rec = sim, rec
        return sim


def run_plan(scn, hist, plan):
    with warnings.catch_warnings():
        warnings.simplefilter("ignore")
        d = Driver(scn, hist, plan)
        try:
            d.execute()
        except (Crash, Interrupt):
            raise
        except Exception as exc:
            guard(exc)
            d.viol.append(("exception:%s" % type(exc).__name__, "continuation raised %r" % (exc,), repr(exc), None))
            d.sim = None
    return d


def compare(ref, d, plan, out):
    label = "+".join("%s" % m for _, _, m in plan)
    L = ref["iteration"] - 1
    where = "final-period" if any(t == L for t, _, _ in plan) else "earlier-period"
    for sig, what, o, e in d.viol:
        out("%s:%s" % (sig, where) if sig.startswith(("json:state", "exception")) else sig, what + " [plan %s]" % (plan,), o, e)
    if d.sim is None:
        return
    obs = observables(d.sim)
    if not pad_equal(obs["pilots"], ref["pilots"]):
        out("%s:pilots-differ:%s" % (label, where), "pilot_signals of the interrupted run differ from the uninterrupted run [plan %s]" % (plan,), obs["pilots"].tolist(), ref["pilots"].tolist())
    if not pad_equal(obs["rates"], ref["rates"]):
        out("%s:rates-differ:%s" % (label, where), "charging_rates differ [plan %s]" % (plan,), obs["rates"].tolist(), ref["rates"].tolist())
    if obs["energy"] != ref["energy"]:
        out("%s:energy-differs:%s" % (label, where), "delivered energies differ [plan %s]" % (plan,), obs["energy"], ref["energy"])
    if obs["events"] != ref["events"]:
        out("%s:events-differ:%s" % (label, where), "event history differs [plan %s]" % (plan,), obs["events"], ref["events"])
    if obs["iteration"] != ref["iteration"]:
        out("%s:iteration-differs:%s" % (label, where), "final iteration differs [plan %s]" % (plan,), obs["iteration"], ref["iteration"])
    if not d.sim.event_queue.empty():
        out("%s:queue-not-empty" % label, "event queue not empty after the continued run", len(d.sim.event_queue), 0)
    for msg in sharing_violations(d.sim):
        out("%s:sharing-after-run" % label, msg, None, None)


def plans_for(calls, pairs):
    single = [[(t, pos, mode)] for t in calls for pos in ("before", "after") for mode in ("resume", "json", "interrupt")]
    if not pairs:
        return single
    double = []
    for i, t1 in enumerate(calls):
        for t2 in calls[i:]:
            for m1 in ("resume", "json"):
                for m2 in ("resume", "json"):
                    for p1, p2 in (("before", "before"), ("after", "before"), ("before", "after")):
                        double.append([(t1, p1, m1), (t2, p2, m2)])
    return single + double


def execute(item, only_plan=None):
    scn, hist = scenario(item)
    viol = []
    d0 = run_plan(scn, hist, [])
    acc_info = {"runs": 1, "states": [], "nt": 0, "outcomes": []}
    if d0.viol or d0.sim is None:
        for sig, what, o, e in d0.viol:
            viol.append(("reference:" + sig, "uninterrupted run failed: " + what, o, e))
        return viol, acc_info
    ref = observables(d0.sim)
    calls = [c["t"] for c in d0.rec.calls]
    plans = plans_for(calls, item.get("pairs")) if only_plan is None else [only_plan]
    for plan in plans:
        plan = [tuple(p) for p in plan]
        d = run_plan(scn, hist, plan)
        if d.plan:  # an interruption that was planned never happened: the run diverged from R
            viol.append(("plan-not-consumed", "planned interruption %s never reached (run diverged)" % (d.plan,), None, None))
        n0 = len(viol)
        compare(ref, d, plan, lambda s, w, o=None, e=None: viol.append((s, w, o, e, plan)))
        acc_info["runs"] += 1
        acc_info["states"].extend(d.states)
        acc_info["nt"] += d.nontrivial
        acc_info["outcomes"].append((len(plan), tuple(m for _, _, m in plan), len(viol) == n0))
    acc_info["periods"] = ref["iteration"]
    acc_info["calls"] = len(calls)
    return viol, acc_info


def run(item):
    acc = Acc()
    viol, info = execute(item)
    acc.evals += info["runs"]
    acc.transitions += info["runs"] * info.get("periods", 0)
    for st in info["states"]:
        acc.state(st)
        acc.nt(st) if st[2].count("None") < 3 and st[3] != "[]" else None
    for o in info["outcomes"]:
        acc.outcome(o)
    acc.count("crash_points", info.get("calls", 0))
    acc.count("interrupted_runs", info["runs"] - 1)
    for v in viol:
        sig, what, o, e = v[:4]
        scn = dict(item)
        if len(v) > 4:
            scn["plan"] = [list(p) for p in v[4]]
        acc.violation(sig, what, scn, o, e)
    acc.sample({"net": item["net"], "cfg": item["cfg"], "sessions": [(s["st"], s["a"], s["d"], s["kind"]) for s in item["sessions"]], "interruptions": info.get("calls")}, cap=2)
    return acc


def replay(scn):
    item = {k: v for k, v in scn.items() if k != "plan"}
    viol, _ = execute(item, only_plan=scn.get("plan"))
    return [{"signature": v[0], "what": v[1], "observed": v[2], "expected": v[3]} for v in viol]
