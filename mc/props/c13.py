"""C13 - EVSEs accept exactly their allowable pilots and advertise truthful limits.

Exhaustive lattice: every EVSE configuration of a menu x every boundary value of its
allowable set (range ends, every level, 0, gaps between levels, beyond the maximum)
x a ladder of offsets around the 1e-3 A tolerance x {vacant, occupied} x entry point
{EVSE.set_pilot, ChargingNetwork.update_pilots}. Oracle: accepted <=> distance to the
allowable set <= 1e-3 (points within 1e-7 of the band edge are not generated).
Advertisements (EVSE properties, network info cache, Interface accessors,
InfrastructureInfo) are enumerated completely and each value is fed back to set_pilot.
"""
from __future__ import annotations

import copy
import math
import warnings

import numpy as np

from acnportal.acnsim import Simulator
from acnportal.acnsim.events import EventQueue
from acnportal.acnsim.interface import Interface
from acnportal.acnsim.models import EV, Battery
from acnportal.acnsim.models.evse import EVSE, DeadbandEVSE, FiniteRatesEVSE, InvalidRateError, StationOccupiedError
from acnportal.acnsim.network import ChargingNetwork

from mc.core import Acc, guard
from mc import simspace as S

ID = "C13"
LEVEL = "exploration"
TECHNIQUE = (
    "exhaustive enumeration of an EVSE-configuration menu x boundary values x tolerance-ladder offsets x {vacant, occupied} x entry point on the real EVSE classes; "
    "set-distance oracle; complete enumeration of every advertised limit fed back into set_pilot"
)
RULE = (
    "EVSE menu (continuous ranges, deadband EVSEs, finite lists incl. unsorted/duplicated/without 0/empty/close levels) x boundary b in {0, range ends, every level, mid-gaps, max+5} "
    "x offset in the ladder around +-1e-3 x occupancy x entry point; non-trivial = probe whose distance to the allowable set is within 2e-3 of the tolerance edge (either side)"
)
ASSUMPTIONS = [
    "tolerance band edge is probed at +-1e-6 (quick) / +-1e-7 .. +-1e-5 (thorough), never on the edge itself: pilots whose distance to the allowable set is within 1e-8 of 1e-3 are not generated",
    "every scenario is preceded by the same short history: EVSE objects of all three classes with the same station id and other limits were built and used before",
    "occupant is an EV with an ideal battery; 'untouched' = pilot, delivered energy, battery charge, battery power and the EV's current rate are bit-identical before/after",
    "an infinite advertised maximum (max_rate=inf) is fed back only to vacant stations",
]
CHUNK = 1

MENU = [
    ("cont", {"min": 0, "max": 32}),
    ("cont", {"min": 6, "max": 32}),
    ("cont", {"min": 0, "max": float("inf")}),
    ("cont", {"min": 0, "max": 16.5}),
    ("cont", {"min": 8, "max": 8}),
    ("dead", {"end": 6, "max": 32}),
    ("dead", {"end": 0.5, "max": 16}),
    ("dead", {"end": 6, "max": float("inf")}),
    ("dead", {"end": 0.0015, "max": 10}),
    ("fin", {"rates": [8, 16, 24, 32]}),
    ("fin", {"rates": [0] + list(range(6, 33))}),
    ("fin", {"rates": [32, 8, 16]}),
    ("fin", {"rates": [8, 8, 16.0, 16]}),
    ("fin", {"rates": [6, 7.5, 10]}),
    ("fin", {"rates": [10, 20]}),
    ("fin", {"rates": []}),
    ("fin", {"rates": [0]}),
    ("fin", {"rates": [6, 6.0015, 12]}),
    ("fin", {"rates": [0.0005, 5]}),
    # the documented argument is an *iterable*: one-shot iterators, tuples, sets, arrays (0 late / absent)
    ("fin", {"rates": [8, 16, 0, 24], "as": "gen"}),
    ("fin", {"rates": [10, 20], "as": "iter"}),
    ("fin", {"rates": [6, 12, 6], "as": "tuple"}),
    ("fin", {"rates": [8.0, 16.0], "as": "ndarray"}),
    ("fin", {"rates": [9, 18, 27], "as": "set"}),
]
MENU_THOROUGH = [
    ("cont", {"min": 1.25, "max": 80}),
    ("cont", {"min": 0, "max": 0}),
    ("cont", {"min": 0.001, "max": 6}),
    ("dead", {"end": 8, "max": 8}),
    ("dead", {"end": 12, "max": 48}),
    ("fin", {"rates": [0, 6, 7, 8, 9, 10, 11, 12, 13, 14, 15, 16]}),
    ("fin", {"rates": [np.float64(6), np.int64(12), 18]}),
    ("fin", {"rates": [48, 40, 32, 24, 16, 8, 0]}),
    ("fin", {"rates": [6.0, 6.002, 6.004]}),
    ("fin", {"rates": [13]}),
]


# thorough: parameter grids of all three classes (every min/max pair, every deadband end x max, every level subset of size <= 3)
import itertools as _it

MENU_THOROUGH += [("cont", {"min": a, "max": b}) for a in (0, 1, 6, 8) for b in (8, 16, 32, 80, float("inf")) if a <= b and ("cont", {"min": a, "max": b}) not in MENU]
MENU_THOROUGH += [("dead", {"end": a, "max": b}) for a in (0.5, 1, 6, 8) for b in (8, 16, 32, float("inf")) if a <= b and ("dead", {"end": a, "max": b}) not in MENU]
MENU_THOROUGH += [("fin", {"rates": list(c)}) for k in (1, 2, 3) for c in _it.combinations((6, 8, 12.5, 16, 24, 32), k)]


def build(kind, p, sid="PS-X"):
    if kind == "cont":
        return EVSE(sid, max_rate=p["max"], min_rate=p["min"])
    if kind == "dead":
        return DeadbandEVSE(sid, deadband_end=p["end"], max_rate=p["max"])
    rates = list(p["rates"])
    form = p.get("as", "list")
    if form == "gen":
        rates = (r for r in rates)
    elif form == "iter":
        rates = iter(rates)
    elif form == "tuple":
        rates = tuple(rates)
    elif form == "ndarray":
        rates = np.array(rates)
    elif form == "set":
        rates = set(rates)
    return FiniteRatesEVSE(sid, rates)


def allowable(kind, p):
    """the allowable set as a list of closed intervals [lo, hi]"""
    if kind == "cont":
        return [(float(p["min"]), float(p["max"]))]
    if kind == "dead":
        return [(0.0, 0.0), (float(p["end"]), float(p["max"]))]
    return [(float(r), float(r)) for r in sorted(set([float(x) for x in p["rates"]] + [0.0]))]


def dist(x, ivs):
    d = math.inf
    for lo, hi in ivs:
        if lo <= x <= hi:
            return 0.0
        d = min(d, lo - x if x < lo else x - hi)
    return d


def offsets(tier):
    base = [0.0, 5e-4, 1e-3 - 1e-6, 1e-3 + 1e-6, 2e-3, 0.5]
    if tier == "thorough":
        base += [1e-3 - 1e-7, 1e-3 + 1e-7, 1e-3 - 1e-5, 1e-3 + 1e-5, 9e-4, 1.1e-3, 1.5e-3, 1e-2, 1e-9]
        base += [k * 1e-4 for k in (1, 2, 3, 4, 6, 7, 8, 12, 13, 14, 16, 18, 25, 30, 50)] + [1e-3 - 3e-6, 1e-3 + 3e-6, 1e-6, 0.1, 0.25, 0.999, 1.001]
    out = []
    for o in base:
        out.append(o)
        if o:
            out.append(-o)
    return out


def boundaries(kind, p):
    ivs = allowable(kind, p)
    bs = {0.0}
    finite_ends = []
    for lo, hi in ivs:
        for v in (lo, hi):
            if math.isfinite(v):
                bs.add(v)
                finite_ends.append(v)
        if math.isfinite(hi) and hi > lo:
            bs.add((lo + hi) / 2)
        if not math.isfinite(hi):
            bs.add(lo + 1000.0)
    fe = sorted(set(finite_ends))
    for a, b in zip(fe, fe[1:]):
        bs.add((a + b) / 2)  # inside a range or in the gap between two levels
    if fe:
        bs.add(fe[-1] + 5.0)
    return sorted(bs)


def bounds(tier, seed):
    return {"menu": len(MENU) + (len(MENU_THOROUGH) if tier == "thorough" else 0), "offsets": offsets(tier), "entry_points": ["set_pilot", "update_pilots"], "occupancy": ["vacant", "occupied"]}


def space(tier, seed):
    menu = MENU + (MENU_THOROUGH if tier == "thorough" else [])
    return [{"kind": k, "p": p, "tier": tier, "idx": i} for i, (k, p) in enumerate(menu)]


def mk_ev(sid="PS-X"):
    return EV(0, 10, 30.0, sid, "sess-1", Battery(60.0, 10.0, 7.0))


def ev_state(ev):
    if ev is None:
        return None
    b = ev._battery
    return (ev.session_id, ev.energy_delivered, ev.current_charging_rate, b._current_charge, b._current_charging_power)


def probe(kind, p, pilot, occupied, entry):
    """one probe on a FRESH object; returns (accepted, untouched, pilot_after, exc_type)"""
    voltage, period = 208, 5
    if entry == "set_pilot":
        evse = build(kind, p)
        ev = mk_ev() if occupied else None
        if ev is not None:
            evse.plugin(ev)
        evse._current_pilot = 0.123 if False else evse._current_pilot
        before = (evse.current_pilot, ev_state(ev), evse.ev)
        try:
            evse.set_pilot(pilot, voltage, period)
            return True, None, evse.current_pilot, None, evse
        except InvalidRateError:
            after = (evse.current_pilot, ev_state(ev), evse.ev)
            return False, before == after and before[2] is after[2], evse.current_pilot, "InvalidRateError", evse
        except Exception as exc:
            guard(exc)
            after = (evse.current_pilot, ev_state(ev), evse.ev)
            return False, before == after and before[2] is after[2], evse.current_pilot, type(exc).__name__, evse
    else:
        net = ChargingNetwork()
        first = EVSE("PS-0", max_rate=32)
        net.register_evse(first, 208, 0)
        evse = build(kind, p)
        net.register_evse(evse, voltage, 0)
        ev = mk_ev() if occupied else None
        if ev is not None:
            net.plugin(ev)
        # a previously ACCEPTED non-zero pilot (so that 'untouched' is not trivially 0): the largest finite advertised value
        prev = [float(v) for v in evse.allowable_pilot_signals if np.isfinite(v) and v > 0]
        first = max(prev) if prev else 16.0
        try:
            net.update_pilots(np.array([[4.0, 4.0], [first, pilot]]), 0, period)
        except InvalidRateError:
            first = 0.0
        before = (evse.current_pilot, ev_state(ev), evse.ev)
        pilots = np.array([[4.0, 4.0], [first, pilot]])
        try:
            net.update_pilots(pilots, 1, period)
            return True, None, evse.current_pilot, None, evse
        except InvalidRateError:
            after = (evse.current_pilot, ev_state(ev), evse.ev)
            return False, before == after and before[2] is after[2], evse.current_pilot, "InvalidRateError", evse
        except Exception as exc:
            guard(exc)
            after = (evse.current_pilot, ev_state(ev), evse.ev)
            return False, before == after and before[2] is after[2], evse.current_pilot, type(exc).__name__, evse


def advertised(kind, p, mode="direct"):
    """every (source, value) the EVSE / network / interface advertises to schedulers.
    mode "direct": a two-station network; "json": a three-station network registered in NON-alphabetical order with
    different limits per station, dumped and re-loaded before it is asked; "mutated": that network, asked once
    through the Interface by a caller that overwrites every array it was handed, then asked again."""
    out = []
    evse = build(kind, p)
    out.append(("evse.max_rate", evse.max_rate))
    out.append(("evse.min_rate", evse.min_rate))
    for v in evse.allowable_pilot_signals:
        out.append(("evse.allowable_pilot_signals", v))
    net = ChargingNetwork()
    if mode in ("direct", "occupied"):
        net.register_evse(EVSE("PS-0", max_rate=32), 208, 0)
        net.register_evse(evse, 208, 0)
        if mode == "occupied":
            # a vehicle whose own charger limit (6.6 kW = 31.7 A at 208 V) is below the station's maximum and on no level
            net.plugin(EV(0, 10, 30.0, "PS-X", "sess-9", Battery(60.0, 10.0, 6.6)))
    else:
        net.register_evse(evse, 240, 120)  # PS-X first: every re-ordering of the three ids moves it
        net.register_evse(EVSE("PS-Z", max_rate=80), 208, 0)
        net.register_evse(FiniteRatesEVSE("PS-A", [7, 13]), 120, -120)
    if mode == "json":
        with warnings.catch_warnings():
            warnings.simplefilter("ignore")
            net = ChargingNetwork.from_json(net.to_json())
        evse = net._EVSEs["PS-X"]
    if mode == "mutated":
        with warnings.catch_warnings():
            warnings.simplefilter("ignore")
            iface0 = Interface(Simulator(net, None, EventQueue(), S.START, verbose=False))
            info0 = iface0.infrastructure_info()
            for arr in (info0.max_pilot, info0.min_pilot, info0.voltages, info0.phases):
                arr[...] = 1.5
            for arr in info0.allowable_pilots:
                try:
                    arr[...] = 1.5
                except TypeError:
                    for q in range(len(arr)):
                        arr[q] = 1.5
            for sid in net.station_ids:
                _, lst = iface0.allowable_pilot_signals(sid)
                for q in range(len(lst)):
                    lst[q] = 1.5
    i = net.station_ids.index("PS-X")
    out.append(("network.max_pilot_signals", net.max_pilot_signals[i]))
    out.append(("network.min_pilot_signals", net.min_pilot_signals[i]))
    for v in net.allowable_rates[i]:
        out.append(("network.allowable_rates", v))
    with warnings.catch_warnings():
        warnings.simplefilter("ignore")
        sim = Simulator(net, None, EventQueue(), S.START, verbose=False)
        iface = Interface(sim)
        out.append(("interface.max_pilot_signal", iface.max_pilot_signal("PS-X")))
        out.append(("interface.min_pilot_signal", iface.min_pilot_signal("PS-X")))
        cont, vals = iface.allowable_pilot_signals("PS-X")
        for v in vals:
            out.append(("interface.allowable_pilot_signals", v))
        info = iface.infrastructure_info()
        j = info.get_station_index("PS-X")
        out.append(("infrastructure_info.max_pilot", info.max_pilot[j]))
        out.append(("infrastructure_info.min_pilot", info.min_pilot[j]))
        for v in info.allowable_pilots[j]:
            out.append(("infrastructure_info.allowable_pilots", v))
        flags = {"evse": bool(evse.is_continuous), "network": bool(net.is_continuous[i]), "interface": bool(cont), "info": bool(info.is_continuous[j])}
    return out, flags


def predecessors():
    """Every scenario starts with the same short history: other EVSE objects that carried the SAME station id earlier in
    this process (a site whose hardware was replaced) have been built and used. It makes the verdict on the EVSE under
    test independent of which scenarios the process ran before (state the library might keep per station id)."""
    for old in (FiniteRatesEVSE("PS-X", [5, 11]), EVSE("PS-X", max_rate=3, min_rate=0), DeadbandEVSE("PS-X", deadband_end=2, max_rate=4)):
        for v in (0, old.max_rate):
            old.set_pilot(v, 208, 5)
        try:
            old.set_pilot(97.0, 208, 5)
        except InvalidRateError:
            pass


def execute(item, only=None):
    kind, p, tier = item["kind"], item["p"], item["tier"]
    predecessors()
    ivs = allowable(kind, p)
    viol = []
    stats = {"probes": 0, "nt": set(), "outcomes": set(), "skipped": 0}
    cfg = "%s%s" % (kind, {k: (v if not isinstance(v, list) else [float(x) for x in v]) for k, v in p.items()})

    def rep(sig, what, o=None, e=None, pr=None):
        viol.append((sig, what, o, e, pr))

    probes = []
    if only is None:
        for b in boundaries(kind, p):
            for o in offsets(tier):
                for occ in (False, True):
                    for entry in ("set_pilot", "update_pilots"):
                        probes.append((b + o, occ, entry))
        # not-a-number lies within 1e-3 A of nothing: refused by every EVSE, like any other value outside the set
        for occ in (False, True):
            for entry in ("set_pilot", "update_pilots"):
                probes.append((float("nan"), occ, entry))
                probes.append((float("-inf"), occ, entry))
    elif only.get("pilot") is not None:
        probes = [(only["pilot"], only["occ"], only["entry"])]
    for pilot, occ, entry in probes:
        d = dist(pilot, ivs) if not math.isnan(pilot) else math.inf
        if abs(d - 1e-3) < 1e-8:
            stats["skipped"] += 1
            continue
        want = d <= 1e-3
        acc_, untouched, after, exc, evse = probe(kind, p, pilot, occ, entry)
        stats["probes"] += 1
        stats["outcomes"].add((kind, want, bool(acc_), occ, entry))
        if abs(d - 1e-3) <= 2e-3:
            stats["nt"].add((item["idx"], round(pilot, 9), occ, entry))
        if math.isnan(pilot):
            after = None if (after is not None and isinstance(after, float) and math.isnan(after)) else after
        pr = {"pilot": pilot, "occ": occ, "entry": entry}
        side = "vacant" if not occ else "occupied"
        if acc_ != want:
            rep(
                "%s:%s:%s" % (kind, "accepted-outside" if acc_ else "rejected-inside", entry),
                "%s %s: pilot %r (distance %.3g A from the allowable set %s) was %s via %s" % (cfg, side, pilot, d, ivs[:6], "accepted" if acc_ else "rejected (%s)" % exc, entry),
                bool(acc_),
                want,
                pr,
            )
            continue
        if acc_:
            if after != pilot:
                rep("%s:accepted-pilot-not-stored" % kind, "%s: accepted pilot %r but current_pilot is %r" % (cfg, pilot, after), after, pilot, pr)
            if occ and evse.ev is not None and pilot >= 0:
                want_rate = min(pilot, 7.0 * 1000 / 208)
                if abs(evse.ev.current_charging_rate - want_rate) > 1e-9:
                    rep("%s:accepted-pilot-not-charged" % kind, "%s: accepted pilot %r, occupant charged at %r" % (cfg, pilot, evse.ev.current_charging_rate), evse.ev.current_charging_rate, want_rate, pr)
        else:
            if exc != "InvalidRateError" and math.isfinite(pilot):
                rep("%s:wrong-exception:%s" % (kind, exc), "%s: rejected pilot %r raised %s, not InvalidRateError" % (cfg, pilot, exc), exc, "InvalidRateError", pr)
            elif not untouched:  # (a pilot that is not a number may be refused with whatever error; it must still change nothing)
                rep("%s:rejection-changed-state:%s" % (kind, side), "%s %s: rejected pilot %r altered the station's pilot / the EV's energy or battery (pilot now %r)" % (cfg, side, pilot, after), after, None, pr)
    # ---- a rejected pilot AFTER an accepted one must keep the accepted one --------
    if only is None or only.get("seq"):
        good = [b for b in boundaries(kind, p) if dist(b, ivs) == 0 and math.isfinite(b)]
        bad = [b for b in [x + 0.5 for x in boundaries(kind, p)] + [-0.5] if dist(b, ivs) > 0.01]
        for g in good[:4]:
            for bd in bad[:4]:
                for occ in (False, True):
                    evse = build(kind, p)
                    ev = mk_ev() if occ else None
                    if ev:
                        evse.plugin(ev)
                    try:
                        evse.set_pilot(g, 208, 5)
                    except InvalidRateError:
                        rep("%s:rejected-inside:sequence" % kind, "%s: allowable pilot %r rejected" % (cfg, g), False, True, {"seq": True})
                        continue
                    before = (evse.current_pilot, ev_state(ev))
                    stats["probes"] += 1
                    try:
                        evse.set_pilot(bd, 208, 5)
                        rep("%s:accepted-outside:sequence" % kind, "%s: pilot %r accepted after %r" % (cfg, bd, g), True, False, {"seq": True})
                    except InvalidRateError:
                        if (evse.current_pilot, ev_state(ev)) != before:
                            rep("%s:rejection-changed-state:after-accepted" % kind, "%s: rejected pilot %r (after accepted %r) altered pilot/EV: pilot now %r" % (cfg, bd, g, evse.current_pilot), evse.current_pilot, g, {"seq": True})
    # ---- creeping: an accepted pilot inside the tolerance band, then a neighbour just outside it -------
    if only is None or only.get("creep"):
        edges = []
        for lo, hi in ivs:
            if math.isfinite(hi):
                edges.append((hi, +1))
            if math.isfinite(lo):
                edges.append((lo, -1))
        for b, sgn in edges:
            p_in, p_out = b + sgn * 0.9e-3, b + sgn * 1.1e-3
            if dist(p_in, ivs) > 1e-3 - 1e-8 or dist(p_out, ivs) < 1e-3 + 1e-8:
                continue  # another part of the allowable set is nearby: not a clean edge
            for first in (b, p_in):
                for occ in (False, True):
                    evse = build(kind, p)
                    ev = mk_ev() if occ else None
                    if ev:
                        evse.plugin(ev)
                    stats["probes"] += 1
                    try:
                        evse.set_pilot(first, 208, 5)
                    except InvalidRateError:
                        rep("%s:rejected-inside:sequence" % kind, "%s: pilot %r (inside the band at edge %r) rejected" % (cfg, first, b), False, True, {"creep": True})
                        continue
                    before = (evse.current_pilot, ev_state(ev))
                    try:
                        evse.set_pilot(p_out, 208, 5)
                        rep("%s:accepted-outside:after-nearby-accepted" % kind, "%s: pilot %r (%.2g A outside the allowable set) accepted right after the accepted pilot %r" % (cfg, p_out, dist(p_out, ivs), first), True, False, {"creep": True})
                    except InvalidRateError:
                        if (evse.current_pilot, ev_state(ev)) != before:
                            rep("%s:rejection-changed-state:after-accepted" % kind, "%s: rejected pilot %r altered pilot/EV" % (cfg, p_out), evse.current_pilot, first, {"creep": True})
    # ---- a dumped and re-loaded EVSE is the same EVSE ------------------------------------------------
    if only is None or only.get("json"):
        with warnings.catch_warnings():
            warnings.simplefilter("ignore")
            try:
                orig = build(kind, p)
                twin = type(orig).from_json(orig.to_json())
            except Exception as exc:
                guard(exc)
                twin = None
                if not any(not math.isfinite(v) for iv in ivs for v in iv):
                    rep("%s:json:exception" % kind, "%s: to_json/from_json raised %r" % (cfg, exc), repr(exc), None, {"json": True})
        if twin is not None:
            adv_o = (float(orig.max_rate), float(orig.min_rate), [float(x) for x in orig.allowable_pilot_signals], bool(orig.is_continuous))
            adv_t = (float(twin.max_rate), float(twin.min_rate), [float(x) for x in twin.allowable_pilot_signals], bool(twin.is_continuous))
            stats["probes"] += 1
            if adv_o != adv_t:
                rep("%s:json:advertisement-changed" % kind, "%s: after a JSON round trip the EVSE advertises %s (before: %s)" % (cfg, adv_t, adv_o), adv_t, adv_o, {"json": True})
            for b in boundaries(kind, p):
                for o in (0.0, 1e-3 - 1e-6, -(1e-3 - 1e-6), 1e-3 + 1e-6, -(1e-3 + 1e-6), 0.5, -0.5):
                    pilot = b + o
                    d = dist(pilot, ivs)
                    if abs(d - 1e-3) < 1e-8:
                        continue
                    stats["probes"] += 1
                    t2 = copy.deepcopy(twin)
                    try:
                        t2.set_pilot(pilot, 208, 5)
                        acc2 = True
                    except InvalidRateError:
                        acc2 = False
                    if acc2 != (d <= 1e-3):
                        rep("%s:json:%s" % (kind, "accepted-outside" if acc2 else "rejected-inside"), "%s: the re-loaded EVSE %s pilot %r (distance %.3g from the allowable set)" % (cfg, "accepts" if acc2 else "rejects", pilot, d), acc2, d <= 1e-3, {"json": True})
                        break
    # ---- advertisements ------------------------------------------------------------
    finite_ends = not any(not math.isfinite(v) for iv in ivs for v in iv)
    for mode in ("direct", "json", "mutated", "occupied"):
      if (only is None or only.get("adv") == mode or (only.get("adv") is True and mode == "direct")) and (mode != "json" or finite_ends):
        sfx = {"direct": "", "json": ":network-json", "mutated": ":after-caller-mutation", "occupied": ":station-occupied"}[mode]
        tag = kind + sfx
        try:
            adv, flags = advertised(kind, p, mode)
        except Exception as exc:
            guard(exc)
            rep("%s:advertisement-exception" % tag, "%s: asking for the advertisements raised %r" % (cfg, exc), repr(exc), None, {"adv": mode})
            continue
        if len(set(flags.values())) != 1 or flags["evse"] != (kind != "fin"):
            rep("%s:continuity-flag" % tag, "%s: is_continuous advertised as %s" % (cfg, flags), flags, kind != "fin", {"adv": mode})
        for src, v in adv:
            v = float(v)
            stats["probes"] += 1
            for occ in (False, True):
                if not math.isfinite(v) and occ:
                    continue
                acc_, _, after, exc, _ = probe(kind, p, v, occ, "set_pilot")
                if not acc_:
                    rep("%s:advertised-value-rejected:%s" % (tag, src.split(".")[-1]), "%s: %s advertises %r which set_pilot rejects (%s)" % (cfg, src, v, exc), False, True, {"adv": mode})
        if mode == "occupied":
            # with a vehicle connected only "what is advertised is accepted" is demanded: an interface that ALSO takes the
            # connected vehicle's own limit into account may advertise less than the station's maximum and still be truthful
            continue
        # advertised sets are complete: max = sup of the allowable set, finite lists = the normalised list
        sup = max(hi for lo, hi in ivs)
        vals = {s: [float(v) for s2, v in adv if s2 == s] for s in {a for a, _ in adv}}
        for src in ("evse.max_rate", "network.max_pilot_signals", "interface.max_pilot_signal", "infrastructure_info.max_pilot"):
            if vals[src][0] != sup:
                rep("%s:advertised-max-wrong" % tag, "%s: %s = %r but the largest allowable pilot is %r" % (cfg, src, vals[src][0], sup), vals[src][0], sup, {"adv": mode})
        if kind == "fin":
            want_list = [lo for lo, _ in ivs]
            for src in ("evse.allowable_pilot_signals", "network.allowable_rates", "interface.allowable_pilot_signals", "infrastructure_info.allowable_pilots"):
                if vals[src] != want_list:
                    rep("fin%s:advertised-list-wrong" % sfx, "%s: %s = %r, normalised list is %r" % (cfg, src, vals[src], want_list), vals[src], want_list, {"adv": mode})
            pos = [x for x in want_list if x > 0]
            want_min = min(pos) if pos else 0.0
        elif kind == "dead":
            want_min = None  # 0 and the deadband end are both truthful lower limits of {0} u [end, max]
        else:
            want_min = float(p["min"])
        for src in ("evse.min_rate", "network.min_pilot_signals", "interface.min_pilot_signal", "infrastructure_info.min_pilot"):
            if want_min is None:
                if vals[src][0] not in (0.0, float(p["end"])):
                    rep("dead%s:advertised-min-wrong" % sfx, "%s: %s = %r is neither 0 nor the deadband end" % (cfg, src, vals[src][0]), vals[src][0], [0.0, float(p["end"])], {"adv": mode})
            elif vals[src][0] != want_min:
                rep("%s:advertised-min-wrong" % tag, "%s: %s = %r, smallest non-zero allowable pilot is %r" % (cfg, src, vals[src][0], want_min), vals[src][0], want_min, {"adv": mode})
    # ---- plugging into an occupied station -------------------------------------------
    if only is None or only.get("plug"):
        # the newcomer's stay overlaps the occupant's (0..10), starts exactly at the occupant's departure, or after it:
        # as long as the occupant has not been unplugged the station is occupied
        for via, same_id, (arr, dep) in [(v, sid, t) for v in ("evse", "network") for sid in (False, True) for t in ((0, 9), (10, 15), (12, 20))]:
            evse = build(kind, p)
            net = ChargingNetwork()
            net.register_evse(evse, 208, 0)
            first = mk_ev()
            first.charge(4.0, 208, 5)  # the occupant has a history that a replacement would lose
            # the newcomer is another session - or another OBJECT carrying the occupant's session id
            second = EV(arr, dep, 5.0, "PS-X", "sess-1" if same_id else "sess-2", Battery(20.0, 1.0, 7.0))
            (evse.plugin if via == "evse" else net.plugin)(first)
            st0 = ev_state(first)
            stats["probes"] += 1
            try:
                (evse.plugin if via == "evse" else net.plugin)(second)
                rep("plugin:occupied-accepted:%s%s%s" % (via, ":same-session-id" if same_id else "", ":arrival>=occupant-departure" if arr >= 10 else ""), "%s: second plug-in accepted (occupant is %s the original object)" % (cfg, "still" if evse.ev is first else "no longer"), getattr(evse.ev, "session_id", None), "StationOccupiedError", {"plug": True})
            except StationOccupiedError:
                if evse.ev is not first or ev_state(first) != st0 or net.get_ev("PS-X") is not first:
                    rep("plugin:occupant-replaced:%s" % via, "%s: refused plug-in replaced/altered the occupant (now %s)" % (cfg, getattr(evse.ev, "session_id", None)), getattr(evse.ev, "session_id", None), "sess-1", {"plug": True})
            except Exception as exc:
                guard(exc)
                rep("plugin:wrong-exception:%s" % via, "%s: second plug-in raised %r" % (cfg, exc), repr(exc), "StationOccupiedError", {"plug": True})
            # unplug resets pilot and vacates; the station is usable again
            evse.unplug()
            if evse.ev is not None or evse.current_pilot != 0:
                rep("unplug:not-reset", "%s: unplug left ev/pilot set" % cfg, None, None, {"plug": True})
    return viol, stats


def run(item):
    acc = Acc()
    viol, st = execute(item)
    acc.evals += st["probes"]
    acc.skipped += st["skipped"]
    for o in st["outcomes"]:
        acc.outcome(o)
    for n in st["nt"]:
        acc.nt(n)
    for sig, what, o, e, pr in viol:
        acc.violation(sig, what, {"kind": item["kind"], "p": item["p"], "tier": item["tier"], "idx": item["idx"], "only": pr}, o, e)
    acc.sample({"evse": item["kind"], "params": {k: (str(v)) for k, v in item["p"].items()}, "boundaries": boundaries(item["kind"], item["p"])[:8]}, cap=3)
    return acc


def replay(scn):
    item = {k: scn[k] for k in ("kind", "p", "tier", "idx")}
    viol, _ = execute(item, only=scn.get("only"))
    return [{"signature": v[0], "what": v[1], "observed": v[2], "expected": v[3]} for v in viol]
