"""C14 - battery models follow their documented charging laws.

Exhaustive lattice (capacity x initial SoC x max power x transition SoC x pilot x
voltage x period) on the real Battery / Linear2StageBattery classes, and from every
lattice point every chain of further charges over the pilot alphabet (so the laws are
checked from non-initial states as well). Oracles: closed-form min() for the ideal
battery; for the two-stage battery an independent integration of the documented law
ds/dt = min(pilot power, max power * (1-s)/(1-transition)) / capacity (exact linear phase,
located switching point, RK4 on the smooth phase); T = T/2 + T/2; monotonicity in pilot
and T; zero pilot; reset.
"""
from __future__ import annotations

import itertools
import json
import math
import warnings

from acnportal.acnsim.models import Battery, Linear2StageBattery

from mc.core import Acc

ID = "C14"
LEVEL = "exploration"
TECHNIQUE = (
    "exhaustive enumeration of a boundary-aligned parameter lattice x chains of charges on the real battery classes; reference = independent numerical integration of the "
    "documented two-stage law (closed-form min for the ideal battery), plus metamorphic identities (T = T/2 + T/2, monotone in pilot and T, zero pilot, reset)"
)
RULE = (
    "capacity x initial SoC (incl. just below/at/above the transition, .999, 1) x max power x transition SoC x pilot x voltage x period, then every chain of <=L further charges over the pilot alphabet; "
    "non-trivial = a charge call whose period crosses the (pilot-dependent) transition SoC or lies in the ramp-down region with a binding ramp"
)
ASSUMPTIONS = [
    "noise off (property statement); lattice, not continuum",
    "ODE agreement within 1e-7 x capacity (reference integration error < 1e-10 x capacity with 256 RK4 steps on the smooth phase); identities within 1e-9 relative",
    "T-splitting and ODE agreement are claimed for the default 'continuous' calculation; the legacy 'stepwise' calculation (documented as a coarser approximation) is checked for zero pilot, monotonicity, bounds and reset only",
]
CHUNK = 1


def bounds(tier, seed):
    if tier == "thorough":
        return {
            "capacity": [8, 10, 24, 40, 60, 100],
            "soc": [0, 0.1, 0.25, 0.5, 0.6, 0.79, 0.7999, 0.8, 0.8001, 0.85, 0.9, 0.949, 0.95, 0.951, 0.97, 0.999, 1],
            "pmax": [3.3, 6.656, 7, 11.5],
            "ts": [0, 0.5, 0.8, 0.95],
            "pilot": [0, 0.5, 1, 2, 6, 8, 12, 16, 20, 24, 32, 40, 48, 80],
            "V": [120, 208, 240],
            "T": [1, 2, 5, 7.5, 8, 15, 30, 45, 60, 90, 240, 480],
            "chain": 2,
        }
    return {
        "capacity": [10, 60],
        "soc": [0, 0.5, 0.79, 0.8, 0.9, 0.999, 1],
        "pmax": [3.3, 7],
        "ts": [0, 0.5, 0.8, 0.95],
        "pilot": [0, 1, 8, 16, 32, 80],
        "V": [208, 240],
        "T": [1, 5, 60, 150],
        "chain": 2,
    }


def space(tier, seed):
    b = bounds(tier, seed)
    items = []
    for cap in b["capacity"]:
        for pmax in b["pmax"]:
            items.append({"model": "ideal", "cap": cap, "pmax": pmax, "ts": None, "tier": tier})
            for ts in b["ts"]:
                items.append({"model": "l2c", "cap": cap, "pmax": pmax, "ts": ts, "tier": tier})
                items.append({"model": "l2s", "cap": cap, "pmax": pmax, "ts": ts, "tier": tier})
    return items


def make(model, cap, charge, pmax, ts):
    if model == "ideal":
        return Battery(cap, charge, pmax)
    return Linear2StageBattery(cap, charge, pmax, noise_level=0, transition_soc=ts, charge_calculation="continuous" if model == "l2c" else "stepwise")


# ---- reference: integrate the documented law ---------------------------------
def ode_energy(cap, charge, pmax, ts, pilot, V, T):
    """kWh gained in T minutes under ds/dt = min(p, pmax*(1-s)/(1-ts))/cap  [s = SoC, t in hours]"""
    p = min(pilot * V / 1000.0, pmax)
    if p <= 0:
        return 0.0, False
    s = charge / cap
    hours = T / 60.0
    crossed = False
    # SoC at which the declining maximum equals the pilot power
    s_star = 1.0 - (p / pmax) * (1.0 - ts)
    t = 0.0
    if s < s_star:
        t_hit = (s_star - s) * cap / p  # hours of constant-power charging until the ramp binds
        if t_hit >= hours:
            return p * hours, False
        s = s_star
        t = t_hit
        crossed = True
    if s >= 1.0:
        return (s - charge / cap) * cap, crossed
    # smooth phase: ds/dt = pmax*(1-s)/((1-ts)*cap); RK4 (the law is linear here, but the reference does not use its closed form)
    k = pmax / ((1.0 - ts) * cap)
    n = max(256, int(math.ceil(k * (hours - t) / 0.02)))  # k*h <= 0.02: RK4 stable and accurate to < 1e-10
    if k * (hours - t) > 60.0:  # the remaining gap has decayed by e^-60: numerically full
        n, hours = max(256, int(math.ceil(60.0 / 0.02))), t + 60.0 / k
    h = (hours - t) / n
    f = lambda x: k * (1.0 - x)
    for _ in range(n):
        k1 = f(s)
        k2 = f(s + 0.5 * h * k1)
        k3 = f(s + 0.5 * h * k2)
        k4 = f(s + h * k3)
        s += h * (k1 + 2 * k2 + 2 * k3 + k4) / 6.0
    return s * cap - charge, True


def ideal_energy(cap, charge, pmax, pilot, V, T):
    return min(pilot * V / 1000.0, pmax, (cap - charge) / (T / 60.0)) * (T / 60.0)


def close(a, b, scale=1.0, rel=1e-9):
    return abs(a - b) <= rel * max(scale, abs(a), abs(b))


def one_charge(model, cap, charge, pmax, ts, pilot, V, T):
    b = make(model, cap, charge, pmax, ts)
    with warnings.catch_warnings():
        warnings.simplefilter("ignore")
        rate = b.charge(pilot, V, T)
    return b, float(rate), float(b._current_charge) - charge


def check_point(model, cap, charge, pmax, ts, pilot, V, T, rep, stats, ctx):
    """all oracles for one (state, pilot, V, T)"""
    b, rate, gained = one_charge(model, cap, charge, pmax, ts, pilot, V, T)
    stats["calls"] += 1
    hours = T / 60.0
    e_rate = rate * V / 1000.0 * hours
    tag = model
    # the returned current and the stored charge tell the same story
    if not close(e_rate, gained, cap, 1e-9):
        rep("%s:rate-vs-stored-charge" % tag, "returned rate %r A means %r kWh but the stored charge grew by %r kWh" % (rate, e_rate, gained), e_rate, gained, ctx)
    if not close(b.current_charging_power * hours, gained, cap, 1e-9):
        rep("%s:power-vs-stored-charge" % tag, "current_charging_power %r kW x T != stored gain %r kWh" % (b.current_charging_power, gained), b.current_charging_power * hours, gained, ctx)
    nontriv = False
    if model == "ideal":
        want = ideal_energy(cap, charge, pmax, pilot, V, T)
        if not close(gained, want, cap, 1e-12):
            rep("ideal:law", "ideal battery gained %r kWh, min(pilot power, max power, power to fill) x T = %r" % (gained, want), gained, want, ctx)
        nontriv = want not in (0.0,) and want < pilot * V / 1000.0 * hours
    elif model == "l2c":
        want, crossed = ode_energy(cap, charge, pmax, ts, pilot, V, T)
        if abs(gained - want) > 1e-7 * cap:
            rep("l2c:law:%s" % ("crossing" if crossed and charge / cap < 1 - (min(pilot * V / 1000.0, pmax) / pmax) * (1 - ts) else ("rampdown" if crossed else "pre-rampdown")),
                "two-stage battery gained %r kWh, integrating the documented law gives %r (|diff| %.3g)" % (gained, want, abs(gained - want)), gained, want, ctx)
        nontriv = crossed and want > 0
        # T = T/2 + T/2
        b2 = make(model, cap, charge, pmax, ts)
        b2.charge(pilot, V, T / 2.0)
        b2.charge(pilot, V, T / 2.0)
        stats["calls"] += 2
        g2 = float(b2._current_charge) - charge
        if not close(gained, g2, cap, 1e-9):
            rep("l2c:split", "charging for T=%r gives %r kWh, for T/2 twice %r kWh" % (T, gained, g2), gained, g2, ctx)
    else:  # stepwise: bounds only
        p = pilot * V / 1000.0
        if gained < -1e-12 or gained > min(p, pmax) * hours + 1e-12 or charge + gained > cap + 1e-9:
            rep("l2s:bounds", "stepwise gained %r kWh outside [0, min(pilot, max) x T] / capacity" % gained, gained, None, ctx)
        s = charge / cap
        nontriv = s >= ts and gained > 0
    if pilot == 0 and (rate != 0 or gained != 0 or b.current_charging_power != 0):
        rep("%s:zero-pilot" % tag, "zero pilot: rate %r, gained %r, power %r" % (rate, gained, b.current_charging_power), [rate, gained], 0, ctx)
    if gained < -1e-12:
        rep("%s:negative-gain" % tag, "charge decreased by %r" % gained, gained, 0, ctx)
    return b, gained, nontriv


def execute(item, only=None):
    bd = bounds(item["tier"], 0)
    model, cap, pmax, ts = item["model"], item["cap"], item["pmax"], item["ts"]
    viol = []
    stats = {"calls": 0, "nt": set(), "outcomes": set(), "points": 0}

    def rep(sig, what, o=None, e=None, ctx=None):
        if len(viol) < 50:
            viol.append((sig, what, o, e, ctx))

    pilots, Vs, Ts = bd["pilot"], bd["V"], bd["T"]
    socs = bd["soc"]
    if ts is not None:
        socs = sorted(set(socs + [max(0.0, ts - 1e-3), ts, min(1.0, ts + 1e-3)]))
    points = [(s, V, T) for s in socs for V in Vs for T in Ts]
    if only is not None:
        points = [(only["soc"], only["V"], only["T"])]
    for s0, V, T in points:
        charge0 = s0 * cap
        stats["points"] += 1
        # ---- single charges over the pilot alphabet: laws + monotone in pilot
        prev = None
        for pilot in pilots:
            ctx = {"soc": s0, "V": V, "T": T, "pilot": pilot}
            b, g, nt = check_point(model, cap, charge0, pmax, ts, pilot, V, T, rep, stats, ctx)
            stats["outcomes"].add((model, g == 0, nt, g >= (cap - charge0) - 1e-12))
            if nt:
                stats["nt"].add((model, cap, pmax, ts, s0, V, T, pilot))
            if prev is not None and g < prev[1] - 1e-12 * cap:
                rep("%s:not-monotone-in-pilot" % model, "pilot %r delivers %r kWh but the smaller pilot %r delivers %r" % (pilot, g, prev[0], prev[1]), g, prev[1], ctx)
            prev = (pilot, g)
            # ---- reset restores the initial state
            b.reset()
            if b._current_charge != charge0 or b.current_charging_power != 0:
                rep("%s:reset" % model, "reset() left charge %r (initial %r), power %r" % (b._current_charge, charge0, b.current_charging_power), [b._current_charge, b.current_charging_power], [charge0, 0], ctx)
            # and the reset battery behaves like a fresh one
            r1 = b.charge(pilot, V, T)
            r2 = make(model, cap, charge0, pmax, ts).charge(pilot, V, T)
            stats["calls"] += 2
            if r1 != r2:
                rep("%s:reset-then-charge" % model, "after reset() charge() returns %r, a fresh battery %r" % (r1, r2), r1, r2, ctx)
            # the same object charged with ANOTHER period length behaves like a fresh battery too
            T_other = Ts[(Ts.index(T) + 1) % len(Ts)] if T in Ts else T * 2
            b.reset()
            r3 = b.charge(pilot, V, T_other)
            r4 = make(model, cap, charge0, pmax, ts).charge(pilot, V, T_other)
            stats["calls"] += 2
            if r3 != r4:
                rep("%s:period-change-on-one-object" % model, "after charging with T=%r and reset(), charge(T=%r) returns %r, a fresh battery %r" % (T, T_other, r3, r4), r3, r4, ctx)
            b.reset(0.25 * cap)
            if b._current_charge != 0.25 * cap or b.current_charging_power != 0:
                rep("%s:reset-to-value" % model, "reset(x) left charge %r, power %r" % (b._current_charge, b.current_charging_power), b._current_charge, 0.25 * cap, ctx)
            # an explicit reset(x) gives a battery that behaves like a fresh one holding x (whatever happened before:
            # it may have been charged to exactly full) and does not redefine the initial state
            r5 = b.charge(pilot, V, T)
            r6 = make(model, cap, 0.25 * cap, pmax, ts).charge(pilot, V, T)
            if r5 != r6:
                rep("%s:reset-to-value-then-charge" % model, "after reset(x) charge() returns %r, a fresh battery holding x %r" % (r5, r6), r5, r6, ctx)
            b.reset()
            stats["calls"] += 2
            if b._current_charge != charge0 or b.current_charging_power != 0:
                rep("%s:reset-after-reset-to-value" % model, "reset(x) followed by reset() restores %r, the initial charge is %r" % (b._current_charge, charge0), b._current_charge, charge0, ctx)
            b.reset(0.25 * cap)
            try:
                b.reset(cap * 1.5)
                rep("%s:reset-above-capacity-accepted" % model, "reset above capacity accepted", None, "ValueError", ctx)
            except ValueError:
                if b._current_charge != 0.25 * cap:
                    rep("%s:reset-refused-changed-state" % model, "refused reset changed the charge", b._current_charge, 0.25 * cap, ctx)
        # ---- monotone in T (same pilot, growing period)
        for pilot in pilots[1:]:
            prevT = None
            for T2 in sorted(set(Ts)):
                _, _, g = one_charge(model, cap, charge0, pmax, ts, pilot, V, T2)
                stats["calls"] += 1
                if prevT is not None and g < prevT[1] - 1e-12 * cap:
                    rep("%s:not-monotone-in-T" % model, "T=%r delivers %r kWh but T=%r delivers %r" % (T2, g, prevT[0], prevT[1]), g, prevT[1], {"soc": s0, "V": V, "T": T2, "pilot": pilot})
                prevT = (T2, g)
        # ---- chains: every sequence of further charges, laws re-checked from the reached state
        if only is None or only.get("chain"):
            for first in pilots[1:]:
                b1 = make(model, cap, charge0, pmax, ts)
                b1.charge(first, V, T)
                c1 = float(b1._current_charge)
                if c1 > cap:  # C03's business; a reference battery cannot be built above capacity
                    continue
                for second in pilots:
                    ctx = {"soc": s0, "V": V, "T": T, "pilot": second, "chain": [first]}
                    # the real object continues; the reference restarts from the reached charge
                    b_cont = make(model, cap, charge0, pmax, ts)
                    b_cont.charge(first, V, T)
                    r_cont = b_cont.charge(second, V, T)
                    g_cont = float(b_cont._current_charge) - c1
                    b_new, g_new, nt = check_point(model, cap, c1, pmax, ts, second, V, T, rep, stats, ctx)
                    stats["calls"] += 2
                    # ... and once more with ANOTHER period length on the continued object (no reset in between)
                    T_o = Ts[(Ts.index(T) + 1) % len(Ts)] if T in Ts else T * 2
                    b_c2 = make(model, cap, charge0, pmax, ts)
                    b_c2.charge(first, V, T)
                    r_c2 = b_c2.charge(second, V, T_o)
                    r_f2 = make(model, cap, c1, pmax, ts).charge(second, V, T_o)
                    stats["calls"] += 3
                    if not close(r_c2, r_f2, 1.0, 1e-12):
                        rep("%s:history-dependence:period-change" % model, "after a charge with T=%r, charge(pilot=%r, T=%r) returns %r A on the continued object but %r A on a fresh battery at the same charge" % (T, second, T_o, r_c2, r_f2), r_c2, r_f2, ctx)
                    # the power the continued object reports is the power of ITS LAST period (0 kW after a zero pilot)
                    if not close(b_cont.current_charging_power * (T / 60.0), g_cont, cap, 1e-9):
                        rep("%s:power-after-a-history%s" % (model, ":zero-pilot" if second == 0 else ""), "after charges at %r A and %r A the battery reports %r kW, its last period stored %r kWh in %r min" % (first, second, b_cont.current_charging_power, g_cont, T), b_cont.current_charging_power, g_cont / (T / 60.0), ctx)
                    if not close(g_cont, g_new, cap, 1e-12):
                        rep("%s:history-dependence" % model, "second charge gained %r kWh on the continued object but %r on a fresh battery at the same charge" % (g_cont, g_new), g_cont, g_new, ctx)
                    if nt:
                        stats["nt"].add((model, cap, pmax, ts, s0, V, T, first, second))
    return viol, stats


def run(item):
    acc = Acc()
    viol, st = execute(item)
    acc.evals += st["calls"]
    acc.transitions += st["calls"]
    for o in st["outcomes"]:
        acc.outcome(o)
    for n in st["nt"]:
        acc.nt(n)
    acc.count("lattice_points", st["points"])
    for sig, what, o, e, ctx in viol:
        acc.violation(sig, what, dict(item, only=ctx), o, e)
    acc.sample({k: item[k] for k in ("model", "cap", "pmax", "ts")}, cap=3)
    return acc


def replay(scn):
    item = {k: scn[k] for k in ("model", "cap", "pmax", "ts", "tier")}
    only = scn.get("only")
    if only is not None:
        only = dict(only)
        only["chain"] = bool(only.get("chain"))
    viol, _ = execute(item, only=only)
    return [{"signature": v[0], "what": v[1], "observed": v[2], "expected": v[3]} for v in viol]
