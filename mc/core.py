"""Core of the bounded-exhaustive checker: runner, sharding, evidence, replays,
known findings.

Every property module (mc/props/cXX.py) exposes

    ID, LEVEL, TECHNIQUE, RULE, ASSUMPTIONS
    space(tier, seed)  -> list of JSON-able work items (the *complete* bounded space)
    run(item)          -> Acc  (executes the real code on that item, checks the oracle)
    replay(scenario)   -> list[Violation-dict]  (re-executes ONE scenario, no explorer)
    classify(violation)-> signature string (stable, input-derived) [optional]

The runner enumerates the whole space (never samples), shards it over worker
processes, merges the accumulators, confirms every violation by re-executing
its scenario (differing observations = harness NONDETERMINISM error, not a
property violation), matches signatures against /verif/known_findings.json,
writes evidence and replay files and sets the exit status.
"""
from __future__ import annotations

import hashlib
import importlib
import json
import multiprocessing as mp
import os
import subprocess
import sys
import time
import traceback

VERIF = os.path.dirname(os.path.dirname(os.path.abspath(__file__)))
EVIDENCE_DIR = os.path.join(VERIF, "evidence")
REPLAY_DIR = os.path.join(VERIF, "replays")
KNOWN = os.path.join(VERIF, "known_findings.json")
if os.path.realpath(os.environ.get("VERIF_REPO") or "/repo") != "/repo":
    # development runs against a scratch tree never touch the committed evidence / replays
    _scratch = os.path.join("/tmp/verif_scratch", os.path.basename(os.path.realpath(os.environ["VERIF_REPO"])))
    EVIDENCE_DIR = os.path.join(_scratch, "evidence")
    REPLAY_DIR = os.path.join(_scratch, "replays")
SCHEMA = "/root/.vp/EVIDENCE.schema.json"

MAX_STATE_HASHES = 4_000_000  # memory guard for the merged set of state hashes


def h64(obj) -> int:
    """Stable 64-bit hash of a JSON-able / repr-able canonical form."""
    if not isinstance(obj, (bytes, str)):
        obj = repr(obj)
    if isinstance(obj, str):
        obj = obj.encode()
    return int.from_bytes(hashlib.blake2b(obj, digest_size=8).digest(), "big")


class Acc:
    """Accumulator of one shard (and, merged, of the whole run)."""

    __slots__ = (
        "evals",
        "transitions",
        "states",
        "states_overflow",
        "outcomes",
        "nontrivial",
        "violations",
        "samples",
        "counters",
        "skipped",
    )

    def __init__(self):
        self.evals = 0  # executions / scenarios / probes
        self.transitions = 0  # steps of the real code that were checked
        self.states = set()  # 64-bit hashes of canonical states reached
        self.states_overflow = 0
        self.outcomes = set()  # small hashable summaries of observed outcomes
        self.nontrivial = set()  # hashes of distinct non-trivial cases
        self.violations = []  # dicts: signature, what, scenario, observed, expected
        self.samples = []
        self.counters = {}
        self.skipped = 0

    def count(self, key, n=1):
        self.counters[key] = self.counters.get(key, 0) + n

    def state(self, canon):
        self.states.add(canon if isinstance(canon, int) else h64(canon))

    def outcome(self, o):
        if len(self.outcomes) < 100000:
            self.outcomes.add(o)

    def nt(self, canon):
        self.nontrivial.add(canon if isinstance(canon, int) else h64(canon))

    def violation(self, signature, what, scenario, observed=None, expected=None):
        if len(self.violations) < 200:
            self.violations.append(
                {
                    "signature": signature,
                    "what": what,
                    "scenario": scenario,
                    "observed": observed,
                    "expected": expected,
                }
            )
        self.count("violations_raw")

    def sample(self, s, cap=3):
        if len(self.samples) < cap:
            self.samples.append(s)

    def merge(self, other: "Acc"):
        self.evals += other.evals
        self.transitions += other.transitions
        if len(self.states) < MAX_STATE_HASHES:
            self.states |= other.states
        else:
            self.states_overflow += len(other.states)
        self.states_overflow += other.states_overflow
        if len(self.outcomes) < 100000:
            self.outcomes |= other.outcomes
        if len(self.nontrivial) < MAX_STATE_HASHES:
            self.nontrivial |= other.nontrivial
        seen = {(v["signature"]) for v in self.violations}
        per_sig = {}
        for v in self.violations:
            per_sig[v["signature"]] = per_sig.get(v["signature"], 0) + 1
        for v in other.violations:
            # keep at most 3 witnesses per signature
            if per_sig.get(v["signature"], 0) < 3:
                self.violations.append(v)
                per_sig[v["signature"]] = per_sig.get(v["signature"], 0) + 1
        for s in other.samples:
            if len(self.samples) < 6:
                self.samples.append(s)
        for k, v in other.counters.items():
            self.counters[k] = self.counters.get(k, 0) + v
        self.skipped += other.skipped


# --------------------------------------------------------------------------
# worker side
# --------------------------------------------------------------------------
_PROP = None


def _init_worker(modname):
    global _PROP
    os.environ.setdefault("ACNPORTAL_VERIF", "1")
    _PROP = importlib.import_module(modname)
    if hasattr(_PROP, "worker_init"):
        _PROP.worker_init()


def _run_chunk(chunk):
    acc = Acc()
    for item in chunk:
        try:
            r = _PROP.run(item)
        except Exception as e:  # must never be swallowed
            sig, what = exc_signature(e)
            acc.count("harness_errors" if sig == "HARNESS-ERROR" else "library_exceptions")
            acc.violation(sig, what, item, observed=traceback.format_exc()[-1500:])
            continue
        acc.merge(r)
    return acc


def exc_signature(e):
    """An exception that escaped a property module.

    Raised by a frame of the library itself (innermost traceback frame inside the acnportal package)
    while the harness was driving it with an input of the property's domain: the library refuses /
    crashes on a behaviour the property says it has -> a violation, signature
    `library-exception:<Type>:<file>:<function>`.  Raised by a harness frame (e.g. the harness reads a
    private attribute that a refactoring renamed): no verdict about the property -> HARNESS-ERROR
    (exit 3, never a VIOLATION line)."""
    import acnportal

    root = os.path.dirname(os.path.realpath(acnportal.__file__)) + os.sep
    tb = traceback.extract_tb(e.__traceback__)
    inner = tb[-1] if tb else None
    if isinstance(e, RecursionError) and tb:
        # the stack was used up by whoever recursed, not by the frame that happened to hit the limit: the most
        # frequent frame of the traceback decides (library recursion -> verdict, harness recursion -> harness error)
        freq = {}
        for fr in tb:
            k = (os.path.realpath(fr.filename), fr.name)
            freq[k] = freq.get(k, 0) + 1
        (fn, name), cnt = max(freq.items(), key=lambda kv: kv[1])
        if cnt >= 50 and fn.startswith(root):
            return (
                "library-exception:RecursionError:%s:%s" % (os.path.basename(fn), name),
                "the library exhausted the call stack recursing in %s (%s), %d nested calls, on an input of the property's domain" % (name, os.path.basename(fn), cnt),
            )
    # skip frames of third-party packages called by the library (numpy / pandas raising on the library's behalf)
    lib = None
    for fr in reversed(tb):
        fn = os.path.realpath(fr.filename)
        if fn.startswith(root):
            lib = fr
            break
        if fn.startswith(VERIF + os.sep):
            break
    if lib is not None:
        sig = "library-exception:%s:%s:%s" % (type(e).__name__, os.path.basename(lib.filename), lib.name)
        return sig, "the library raised %s: %s (in %s, %s) on an input of the property's domain" % (
            type(e).__name__, str(e)[:200], os.path.basename(lib.filename), lib.name)
    return "HARNESS-ERROR", "exception inside the harness (no verdict about the property): %s: %s at %s" % (
        type(e).__name__, str(e)[:200], ("%s:%s" % (os.path.basename(inner.filename), inner.lineno)) if inner else "?")


class HarnessFault(Exception):
    """an exception that a harness frame raised while handling library results: no verdict about the property"""


def guard(exc):
    """First statement of every `except Exception as exc` handler of a property module that turns an exception
    into a violation: only exceptions raised by the LIBRARY (innermost relevant traceback frame inside the acnportal
    package) are verdicts. One raised by a harness frame (the harness touching a private attribute that a refactoring
    renamed, a bug of the harness) becomes a HarnessFault -> HARNESS-ERROR, exit 3, never a VIOLATION line.
    Exception classes defined by the harness itself (watchdog, injected crash) pass: their callers know them."""
    if type(exc).__module__.startswith("mc.") or isinstance(exc, HarnessFault):
        if isinstance(exc, HarnessFault):
            raise exc
        return
    if exc_signature(exc)[0] == "HARNESS-ERROR":
        raise HarnessFault("%s: %s" % (type(exc).__name__, exc)) from exc


def _chunks(items, n):
    for i in range(0, len(items), n):
        yield items[i : i + n]


# --------------------------------------------------------------------------
# known findings
# --------------------------------------------------------------------------
def load_known(pid):
    if not os.path.exists(KNOWN):
        return {}
    with open(KNOWN) as f:
        data = json.load(f)
    out = {}
    for e in data.get("findings", []):
        if e.get("property") == pid and e.get("status") == "known":
            out[e["signature"]] = e
    return out


# --------------------------------------------------------------------------
# evidence
# --------------------------------------------------------------------------
def _jsonable(o):
    try:
        json.dumps(o)
        return o
    except TypeError:
        return repr(o)


def write_evidence(pid, ev):
    os.makedirs(EVIDENCE_DIR, exist_ok=True)
    path = os.path.join(EVIDENCE_DIR, pid + ".json")
    tmp = path + ".tmp"
    with open(tmp, "w") as f:
        json.dump(ev, f, indent=1, default=repr)
    os.replace(tmp, path)
    # validate through the tooling interpreter (the only one with jsonschema)
    if os.path.exists(SCHEMA):
        code = (
            "import json,sys,jsonschema;"
            "jsonschema.validate(json.load(open(sys.argv[1])),json.load(open(sys.argv[2])))"
        )
        try:
            r = subprocess.run(
                ["python3-vt", "-c", code, path, SCHEMA],
                capture_output=True,
                text=True,
                timeout=60,
            )
            if r.returncode != 0:
                print("EVIDENCE-SCHEMA-ERROR", r.stderr[-800:], file=sys.stderr)
                return False
        except (OSError, subprocess.TimeoutExpired):
            pass
    return True


def write_replay(pid, v):
    d = os.path.join(REPLAY_DIR, pid)
    os.makedirs(d, exist_ok=True)
    name = "%016x.json" % h64(json.dumps([v["signature"], v["scenario"]], sort_keys=True, default=repr))
    path = os.path.join(d, name)
    with open(path, "w") as f:
        json.dump({"property": pid, **v}, f, indent=1, default=repr)
    return path


# --------------------------------------------------------------------------
# main
# --------------------------------------------------------------------------
def assert_repo():
    import acnportal

    p = os.path.realpath(acnportal.__file__)
    want = os.path.realpath(os.environ.get("VERIF_REPO") or "/repo").rstrip("/") + "/"
    if not p.startswith(want):
        print("HARNESS-ERROR acnportal imported from %s, not %s" % (p, want), file=sys.stderr)
        sys.exit(3)
    if want != "/repo/":
        print("NOTE: checking the scratch tree %s (VERIF_REPO), not /repo" % want, file=sys.stderr)


def main(argv=None):
    import argparse

    ap = argparse.ArgumentParser()
    ap.add_argument("pid")
    ap.add_argument("--tier", default=os.environ.get("VERIF_TIER") or "quick")
    ap.add_argument("--replay", default=None)
    ap.add_argument("--workers", type=int, default=int(os.environ.get("VERIF_WORKERS", "0")) or None)
    ap.add_argument("--limit", type=int, default=None, help="debug: only the first N items (never used by MANIFEST)")
    args = ap.parse_args(argv)
    pid = args.pid.upper()
    tier = args.tier if args.tier in ("quick", "thorough") else "quick"
    try:
        seed = int(os.environ.get("VERIF_SEED", "0") or 0)
    except ValueError:
        seed = 0
    modname = "mc.props.%s" % pid.lower()
    os.environ.setdefault("ACNPORTAL_VERIF", "1")
    prop = importlib.import_module(modname)
    assert_repo()

    if args.replay:
        with open(args.replay) as f:
            rec = json.load(f)
        if str(rec.get("signature", "")).startswith("library-exception:"):
            try:
                prop.run(rec["scenario"])
                vs = []
            except Exception as e:
                sig, what = exc_signature(e)
                if sig == "HARNESS-ERROR":
                    raise
                vs = [{"signature": sig, "what": what, "observed": traceback.format_exc()[-800:]}]
        else:
            vs = prop.replay(rec["scenario"])
        known = load_known(pid)
        bad = 0
        for v in vs:
            sig = v["signature"]
            if sig in known:
                print("KNOWN-FINDING: property=%s %s" % (pid, known[sig]["what"]))
            else:
                bad += 1
                print("REPLAY-VIOLATION property=%s signature=%s :: %s" % (pid, sig, v["what"]))
                print("  observed:", json.dumps(v.get("observed"), default=repr)[:600])
                print("  expected:", json.dumps(v.get("expected"), default=repr)[:600])
        if bad:
            print("VIOLATION property=%s replay=%s" % (pid, args.replay))
            return 1
        print("replay: property held on this scenario")
        return 0

    t0 = time.time()
    items = list(prop.space(tier, seed))
    if args.limit:
        items = items[: args.limit]
    n_items = len(items)
    # rotate the shard order with the seed (nothing is sampled: the whole list is run)
    if seed and n_items:
        k = (seed * 7919) % n_items
        items = items[k:] + items[:k]
    workers = args.workers or min(16, os.cpu_count() or 1)
    chunk = max(1, min(getattr(prop, "CHUNK", 64), (n_items + workers * 4 - 1) // (workers * 4) or 1))
    total = Acc()
    if workers == 1 or n_items <= 1:
        _init_worker(modname)
        for c in _chunks(items, chunk):
            total.merge(_run_chunk(c))
    else:
        ctx = mp.get_context("fork")
        with ctx.Pool(workers, initializer=_init_worker, initargs=(modname,)) as pool:
            for acc in pool.imap_unordered(_run_chunk, list(_chunks(items, chunk))):
                total.merge(acc)
    if hasattr(prop, "finalize"):
        prop.finalize(total, tier, seed)

    # ---- confirm violations by replaying each recorded scenario -------------
    known = load_known(pid)
    confirmed, nondeterministic, harness_errors = [], [], []
    seen_sig = set()
    for v in total.violations:
        if v["signature"] in seen_sig:
            continue
        if v["signature"] == "HARNESS-ERROR":
            harness_errors.append(v)
            seen_sig.add(v["signature"])
            continue
        if v["signature"].startswith("library-exception:"):
            # the scenario is the whole work item: run it again, the same exception must escape again
            try:
                prop.run(v["scenario"])
                again = []
            except Exception as e:
                again = [{"signature": exc_signature(e)[0]}]
        else:
            try:
                again = prop.replay(v["scenario"])
            except Exception:
                again = [{"signature": "REPLAY-CRASH", "what": traceback.format_exc()[-800:]}]
        rs = v["scenario"]
        sigs = {a["signature"] for a in again}
        if v["signature"] not in sigs and isinstance(v["scenario"], dict) and v["scenario"].get("only") is not None:
            # the scenario pins one case of a work item; if the verdict depends on what the same objects were
            # asked before (state kept by the library between calls), the whole item reproduces it
            rs = {k: x for k, x in v["scenario"].items() if k != "only"}
            try:
                again = prop.replay(rs)
            except Exception:
                again = [{"signature": "REPLAY-CRASH", "what": traceback.format_exc()[-800:]}]
            sigs = {a["signature"] for a in again}
        if v["signature"] in sigs:
            confirmed.append(v)
            seen_sig.add(v["signature"])
        else:
            # the replay (a fresh execution of the scenario in this process) shows OTHER violations than the worker
            # saw: the verdict depends on what the worker's process had executed before (state the library keeps
            # between calls). Violations that two consecutive replays both show are reproducible facts about this
            # scenario and are reported under their own signatures; the worker's signature is not.
            stable = []
            if sigs and "REPLAY-CRASH" not in sigs:
                try:
                    again2 = prop.replay(rs)
                except Exception:
                    again2 = []
                sigs2 = {a["signature"] for a in again2}
                stable = [a for a in again if a["signature"] in sigs2]
            for a in stable:
                if a["signature"] in seen_sig:
                    continue
                confirmed.append({"signature": a["signature"], "what": a.get("what", ""), "scenario": rs, "observed": a.get("observed"), "expected": a.get("expected")})
                seen_sig.add(a["signature"])
            if not stable:
                nondeterministic.append((v, sorted(sigs)))

    exit_code = 0
    new_violations = 0
    for v in confirmed:
        if v["signature"] in known:
            print("KNOWN-FINDING: property=%s %s" % (pid, known[v["signature"]]["what"]))
            continue
        new_violations += 1
        path = write_replay(pid, v)
        print("  signature=%s :: %s" % (v["signature"], v["what"]))
        print("VIOLATION property=%s replay=%s" % (pid, path))
        exit_code = 1
    for v in harness_errors:
        print("HARNESS-ERROR property=%s (no verdict) %s\n%s" % (pid, v["what"], (v.get("observed") or "")[-1200:]), file=sys.stderr)
        if exit_code == 0:
            exit_code = 3
    for v, sigs in nondeterministic:
        print(
            "HARNESS-NONDETERMINISM property=%s signature=%s not reproduced on replay (got %s)"
            % (pid, v["signature"], sigs),
            file=sys.stderr,
        )
        if exit_code == 0:  # a confirmed violation stays exit 1; only a run with nothing confirmed becomes 3
            exit_code = 3

    wall = time.time() - t0
    n_states = len(total.states) + total.states_overflow
    n_out = len(total.outcomes)
    cov = {
        "evaluations": int(total.evals),
        "distinct_nontrivial": int(len(total.nontrivial)),
        "rule": prop.RULE,
        "samples": [_jsonable(s) for s in total.samples][:6] or [_jsonable(items[0])] if n_items else [],
        "states": int(n_states),
        "transitions": int(total.transitions),
        "traces_validated_against_impl": int(total.evals),
        "exhaustive": bool(not args.limit),
        "work_items": n_items,
        "distinct_outcomes": n_out,
        "skipped_by_guard_band": int(total.skipped),
        "counters": total.counters,
        "bounds": getattr(prop, "bounds", lambda t, s: {})(tier, seed),
        "workers": workers,
        "technique": prop.TECHNIQUE,
    }
    ev = {
        "property_id": pid,
        "tier": tier,
        "seed": seed,
        "level": prop.LEVEL,
        "coverage": cov,
        "assumptions": list(prop.ASSUMPTIONS),
        "wall_s": round(wall, 3),
        "violations": int(new_violations),
        "known_findings_hit": sorted({v["signature"] for v in confirmed if v["signature"] in known}),
    }
    ok = write_evidence(pid, ev)
    print(
        "%s tier=%s seed=%d items=%d evals=%d states=%d transitions=%d outcomes=%d nontrivial=%d wall=%.1fs"
        % (pid, tier, seed, n_items, total.evals, n_states, total.transitions, n_out, len(total.nontrivial), wall)
    )
    if total.counters:
        print("  counters:", json.dumps(total.counters, sort_keys=True))
    # vacuity self-check: an exploration in which nothing ever differed is worthless
    if exit_code == 0 and not args.limit:
        if n_out < 2 or len(total.nontrivial) < 2 or total.evals < 1:
            print("HARNESS-VACUOUS property=%s outcomes=%d nontrivial=%d" % (pid, n_out, len(total.nontrivial)), file=sys.stderr)
            exit_code = 3
    if not ok and exit_code == 0:
        exit_code = 3
    return exit_code


if __name__ == "__main__":
    try:
        rc = main()
    except SystemExit:
        raise
    except BaseException:  # a crash of the harness is never a verdict about the property: exit 3, not 1
        traceback.print_exc()
        print("HARNESS-CRASH (no verdict)", file=sys.stderr)
        rc = 3
    sys.exit(rc)
