"""Scenario space and capture for the sorting-algorithm properties (C07, C08)."""
from __future__ import annotations

from mc.core import guard
import itertools
import warnings

import numpy as np

from mc import simspace as S

SORTS = ("fcfs", "lcfs", "edf", "llf", "lrpt")
KINDS = ("slow", "fast", "small", "l2c")


def sess(st, a, stay, kind, idx=0):
    """energies/est. departures are made pairwise distinct through idx so priority keys do not tie"""
    s = {"st": st, "a": a, "d": a + stay, "kind": kind}
    if kind == "slow":  # battery limits the rate to ~15.9 A at 208 V: the rampdown estimator engages
        s.update(batt="ideal", e=30.0 + 1.7 * idx, cap=80.0, init=0.0, pmax=3.3)
    elif kind == "fast":
        s.update(batt="ideal", e=22.0 + 1.3 * idx, cap=80.0, init=0.0, pmax=9.0)
    elif kind == "small":  # finishes during the run: remaining amp-periods becomes the binding bound
        s.update(batt="ideal", e=0.71 + 0.017 * idx, cap=5.0, init=1.0, pmax=9.0)
    elif kind == "capped":  # the battery is full long before the request is met: the actual rate drops to 0 under a positive pilot
        s.update(batt="ideal", e=6.0 + 0.3 * idx, cap=2.0, init=1.4, pmax=9.0)
    elif kind == "l2c":  # two-stage battery in its ramp-down region
        s.update(batt="l2c", e=1.9 + 0.11 * idx, cap=10.0, init=7.9, pmax=7.0)
    return s


def options(tier, unint_values=(False, True)):
    out = []
    for algo in ("greedy", "rr"):
        for sort in SORTS:
            for est in (False, True):
                for unint in unint_values:
                    out.append({"kind": algo, "sort": sort, "est": est, "unint": unint, "inc": 1})
    return out


def _pool(stations, arrivals, stays):
    pool, i = [], 0
    for st in stations:
        for a in arrivals:
            for stay in stays:
                for kind in KINDS:
                    pool.append(sess(st, a, stay, kind, i))
                    i += 1
    return pool


def scenarios(tier, nets, unint_values=(False, True)):
    """quick: all 1- and 2-subsets over (arrival 0/1, stay 3); thorough: 1-2-subsets over
    (arrival 0/1, stay 2/4) plus all 3-subsets over (arrival 0/1, stay 3)"""
    thorough = tier == "thorough"
    blocks = [((0, 1), (2, 4), 1, 2), ((0, 1), (3,), 3, 3)] if thorough else [((0, 1), (3,), 1, 2)]
    for netname in nets:
        stations = list(S.NETS[netname]["stations"])
        for arrivals, stays, kmin, kmax in blocks:
            for ss in S.session_subsets(_pool(stations, arrivals, stays), kmin, kmax):
                # estimated departures differ from the real ones and from each other
                for j, s in enumerate(ss):
                    s["ed"] = s["d"] + (1, 2, 4)[j % 3]
                for opt in options(tier, unint_values):
                    yield {"net": netname, "sessions": ss, "sched": opt, "period": 5}


def extra_scenarios(tier):
    """(1) an estimator whose bound can reach exactly 0 A (rampdown without upward probing, battery full before the
    request is met); (2) a network with an EVSE that has no maximum rate; (3) two-stage runs: the limit of the
    last-added constraint is tightened between two run() calls of one simulator"""
    thorough = tier == "thorough"
    # (1)
    for netname in ("N2", "N5"):
        stations = list(S.NETS[netname]["stations"])
        pool = [sess(st, a, 4, kind, i) for i, (st, a, kind) in enumerate(itertools.product(stations, (0, 1), ("capped", "fast")))]
        for ss in S.session_subsets(pool, 1, 2):
            if not any(s["kind"] == "capped" for s in ss):
                continue
            for algo in ("greedy", "rr"):
                for sort in (SORTS if thorough else ("fcfs", "llf")):
                    for unint in (False, True):
                        yield {"net": netname, "sessions": ss, "sched": {"kind": algo, "sort": sort, "est": "ramp0", "unint": unint, "inc": 1}, "period": 5}
    # (1b) a user-written estimator that bounds some sessions ABOVE the EVSE maximum and leaves the others unbounded
    for netname in ("N2", "N5"):
        stations = list(S.NETS[netname]["stations"])
        pool = [sess(st, a, 3, kind, i) for i, (st, a, kind) in enumerate(itertools.product(stations, (0, 1), ("fast", "small")))]
        for ss in S.session_subsets(pool, 1, 2):
            for algo in ("greedy", "rr"):
                for sort in (SORTS if thorough else ("fcfs", "lrpt")):
                    for unint in (False, True):
                        yield {"net": netname, "sessions": ss, "sched": {"kind": algo, "sort": sort, "est": "loose", "unint": unint, "inc": 1}, "period": 5}
    # (1c) a site with a deadband EVSE that stays IDLE (sessions only on the from-zero and finite-rate stations): an idle
    # station gets 0, whatever its own lowest positive level is
    pool = [sess(st, a, 3, kind, i) for i, (st, a, kind) in enumerate(itertools.product(("PS-B", "PS-C"), (0, 1), ("fast", "small")))]
    for ss in S.session_subsets(pool, 1, 2):
        for algo in ("greedy", "rr"):
            for sort in (SORTS if thorough else ("fcfs", "llf")):
                for unint in (False, True):
                    yield {"net": "N3", "sessions": ss, "sched": {"kind": algo, "sort": sort, "est": False, "unint": unint, "inc": 1}, "period": 5}
    # (1d) finite-rate levels that are not whole amperes
    stations = list(S.NETS["N16"]["stations"])
    pool = [sess(st, a, 3, kind, i) for i, (st, a, kind) in enumerate(itertools.product(stations, (0, 1), ("fast", "small")))]
    for ss in S.session_subsets(pool, 1, 3 if thorough else 2):
        for algo in ("greedy", "rr"):
            for sort in (SORTS if thorough else ("fcfs", "lcfs", "lrpt")):
                yield {"net": "N16", "sessions": ss, "sched": {"kind": algo, "sort": sort, "est": False, "unint": False, "inc": 1}, "period": 5}
    # (2)
    stations = list(S.NETS["N9"]["stations"])
    pool = [sess(st, a, 3, kind, i) for i, (st, a, kind) in enumerate(itertools.product(stations, (0, 1), ("fast", "small")))]
    for ss in S.session_subsets(pool, 1, 3 if thorough else 2):
        for algo in ("greedy", "rr"):
            for sort in (SORTS if thorough else ("fcfs", "lrpt")):
                for est in (False, True):
                    yield {"net": "N9", "sessions": ss, "sched": {"kind": algo, "sort": sort, "est": est, "unint": False, "inc": 1}, "period": 5}
    # (2b) constraint coefficients of magnitude above 1
    stations = list(S.NETS["N12"]["stations"])
    pool = [sess(st, a, 3, kind, i) for i, (st, a, kind) in enumerate(itertools.product(stations, (0, 1), ("fast", "small")))]
    for ss in S.session_subsets(pool, 2, 3 if thorough else 2):
        for algo in ("greedy", "rr"):
            for sort in (SORTS if thorough else ("fcfs", "lrpt")):
                yield {"net": "N12", "sessions": ss, "sched": {"kind": algo, "sort": sort, "est": False, "unint": False, "inc": 1}, "period": 5}
    # (3)
    for st2, kind2 in itertools.product(("PS-B", "PS-C"), ("fast", "slow")):
        ss = [dict(sess("PS-A", 0, 2, "fast", 0), sid="ev0"), dict(sess(st2, 4, 3, kind2, 1), sid="ev1"), dict(sess("PS-A", 4, 2, "fast", 2), sid="ev2")]
        for opt in options(tier, (False, True)):
            yield {"net": "N2", "sessions": ss, "sched": opt, "period": 5, "two_phase": 4, "edit": 9.7}


def three_scenarios(tier, nets=("N2", "N5", "N7", "N10")):
    """three overlapping sessions (one per station, arrivals 0/1/2 so that no priority key ties, every combination of kinds): the smallest scope in which a
    session that drops out of a round can disturb the order of the two behind it"""
    for netname in nets:
        stations = list(S.NETS[netname]["stations"])
        if len(stations) < 3:
            continue
        for kinds in itertools.product(KINDS, repeat=3):
            ss = [dict(sess(st, i, 5 - i, kind, 4 * i), sid="ev%d" % i) for i, (st, kind) in enumerate(zip(stations[:3], kinds))]
            for j, s in enumerate(ss):
                s["ed"] = s["d"] + (1, 2, 4)[j % 3]
            for algo in ("rr", "greedy"):
                for sort in (SORTS if tier == "thorough" else ("fcfs", "lcfs", "lrpt")):
                    yield {"net": netname, "sessions": ss, "sched": {"kind": algo, "sort": sort, "est": False, "unint": False, "inc": 1}, "period": 5}


def edit_scenarios(tier, unint_values=(False, True)):
    """two run() stages of one simulator; the limit of the last-added constraint is changed (same name) in between"""
    for st2, kind2 in itertools.product(("PS-B", "PS-C"), ("fast", "slow")):
        for edit in (9.7, 47.3):  # tightened / relaxed
            ss = [dict(sess("PS-A", 0, 2, "fast", 0), sid="ev0"), dict(sess(st2, 4, 3, kind2, 1), sid="ev1"), dict(sess("PS-A", 4, 2, "fast", 2), sid="ev2")]
            for opt in options(tier, unint_values):
                yield {"net": "N2", "sessions": ss, "sched": opt, "period": 5, "two_phase": 4, "edit": edit}


def inc_scenarios(tier, nets=("N2", "N5")):
    """round robin with other continuous increments than 1 A: one that divides the EVSE limits (0.5) and one that does
    not (2.5; the top of the grid is then below the limit)"""
    thorough = tier == "thorough"
    for netname in nets:
        stations = list(S.NETS[netname]["stations"])
        for ss in S.session_subsets(_pool(stations, (0, 1), (3,)), 1, 2):
            for j, s in enumerate(ss):
                s["ed"] = s["d"] + (1, 2, 4)[j % 3]
            for inc in (0.5, 2.5):
                for sort in (SORTS if thorough else ("fcfs", "llf")):
                    for est in ((False, True) if thorough else (False,)):
                        yield {"net": netname, "sessions": ss, "sched": {"kind": "rr", "sort": sort, "est": est, "unint": False, "inc": inc}, "period": 5}


def period_scenarios(tier, nets=("N2", "N5")):
    """period lengths that do not divide an hour (8 min = 7.5 periods/h, 45 min = 1.33 periods/h): the conversion of
    remaining energy into amp-periods enters every bound and the laxity / processing-time keys"""
    thorough = tier == "thorough"
    for netname in nets:
        stations = list(S.NETS[netname]["stations"])
        for ss in S.session_subsets(_pool(stations, (0, 1), (3,)), 1, 2):
            for j, s in enumerate(ss):
                s["ed"] = s["d"] + (1, 2, 4)[j % 3]
            for period in (8, 45):
                for kind in ("greedy", "rr"):
                    for sort in (SORTS if thorough else ("llf", "lrpt", "fcfs")):
                        yield {"net": netname, "sessions": ss, "sched": {"kind": kind, "sort": sort, "est": False, "unint": False, "inc": 1}, "period": period}


class Capture:
    """on_call/on_return pair recording, per invocation, the true state and the output"""

    def __init__(self):
        self.calls = []
        self.evs = None

    def on_call(self, rec, active_sessions, r):
        sim = rec.interface._simulator
        net = sim.network
        r["active"] = [
            {
                "sid": s.session_id,
                "st": s.station_id,
                "arrival": s.arrival,
                "ed": s.estimated_departure,
                "remaining_kwh": self.evs[s.session_id].requested_energy - self.evs[s.session_id].energy_delivered,
                "shown_remaining": s.remaining_demand,
                "remaining_time": s.remaining_time,
            }
            for s in active_sessions
        ]
        r["occ"] = {sid: (e.ev.session_id if e.ev is not None else None) for sid, e in net._EVSEs.items()}

    def on_return(self, rec, active_sessions, r, out):
        est = getattr(rec.inner, "max_rate_estimator", None)
        r["bounds"] = dict(est.upper_bounds) if est is not None else None
        self.calls.append(r)
        return out


def run(scn, owned=None, algo=None):
    """`algo`: an algorithm OBJECT to use instead of a fresh one (the same object driven through several simulations)"""
    cap = Capture()
    tr = S.Trace()
    tr.scn, tr.error = scn, None
    with warnings.catch_warnings(record=True) as wlog:
        warnings.simplefilter("always")
        sim, rec, evs, periods = S.build_sim(scn, algo=algo, on_call=cap.on_call, on_return=cap.on_return)
        cap.evs = evs
        tr.sim, tr.rec, tr.evs, tr.periods = sim, rec, evs, periods
        later = rec.later
        try:
            sim.run()
            if later:
                if scn.get("edit") is not None:
                    from acnportal.acnsim.network import Current

                    cname, coefs, _ = S.NETS[scn["net"]]["constraints"][-1]
                    sim.network.update_constraint(cname, Current(dict(coefs)), scn["edit"], cname)
                sim.event_queue.add_events(later)
                sim.run()
        except Exception as exc:
            guard(exc)
            tr.error = exc
    tr.warnings = [w for w in wlog if "pkg_resources" not in str(w.message)]
    tr.calls = cap.calls
    return tr
