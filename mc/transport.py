"""Scripted transport: owns `requests` inside acnportal.acndata.data_client.

The fake server holds a list of pages (each a list of session documents, possibly empty);
page i is served at a URL the server chooses and links to page i+1 through
payload["_links"]["next"]["href"]. Every request (url, auth) is logged.
"""
from __future__ import annotations

import copy


class FakeResponse:
    def __init__(self, payload, headers=None):
        self._payload = payload
        self.headers = headers or {}
        self.status_code = 200

    def json(self):
        return copy.deepcopy(self._payload)


class _RequestsFacade:
    """whatever else the client looks up on its `requests` name (exception classes, status codes, ...) is the real thing"""

    def __getattr__(self, name):
        if name.startswith("__"):
            raise AttributeError(name)
        import requests as _real

        return getattr(_real, name)


class FakeServer(_RequestsFacade):
    def __init__(self, pages, base="https://ev.caltech.edu/api/v1/", total=None, fail_at=()):
        self.pages = pages
        self.base = base
        self.log = []  # (method, url, auth/headers)
        self.first_url = None
        self.total = total
        self.fail_at = set(fail_at)  # request numbers (0-based) answered with a transport fault instead of a page
        self.faults = 0

    def _payload(self, i):
        links = {"self": {"href": "self-%d" % i}}
        if i + 1 < len(self.pages):
            links["next"] = {"href": "sessions/page?cursor=%d&max_results=keep" % (i + 1)}
        return {"_items": copy.deepcopy(self.pages[i]) if self.pages else [], "_links": links, "_meta": {"page": i + 1}}

    def get(self, url, auth=None, **kw):
        self.log.append(("GET", url, auth))
        if (len(self.log) - 1) in self.fail_at:
            import requests as _real

            self.faults += 1
            raise _real.exceptions.ConnectionError("connection dropped (injected)")
        if "cursor=" in url:
            i = int(url.split("cursor=")[1].split("&")[0])
            if not url.startswith(self.base):
                raise AssertionError("next link requested without the base url: %r" % url)
        else:
            if self.first_url is not None and self.strict:
                raise AssertionError("a second first-page request: %r" % url)
            self.first_url = url
            i = 0
        if i >= max(1, len(self.pages)):
            raise AssertionError("page %d does not exist" % i)
        return FakeResponse(self._payload(i))

    strict = False

    def head(self, url, headers=None, **kw):
        self.log.append(("HEAD", url, headers))
        return FakeResponse({}, headers={"x-total-count": self.total if self.total is not None else sum(len(p) for p in self.pages)})


class owned_requests:
    """with owned_requests(server): data_client.requests is the fake server"""

    def __init__(self, server):
        self.server = server

    def __enter__(self):
        from acnportal.acndata import data_client as dc

        self._dc = dc
        self._old = dc.requests
        dc.requests = self.server
        return self.server

    def __exit__(self, *a):
        self._dc.requests = self._old


class MultiServer(_RequestsFacade):
    """several result sets (one per site), each with its own chain of next links; requests are routed by URL"""

    def __init__(self, sets, base="https://ev.caltech.edu/api/v1/"):
        self.sets = sets  # site -> list of pages
        self.base = base
        self.log = []

    def _payload(self, site, i):
        pages = self.sets[site]
        links = {"self": {"href": "self"}}
        if i + 1 < len(pages):
            links["next"] = {"href": "sessions/%s/page?cursor=%d" % (site, i + 1)}
        return {"_items": copy.deepcopy(pages[i]) if pages else [], "_links": links}

    def get(self, url, auth=None, **kw):
        self.log.append(("GET", url, auth))
        rest = url[len(self.base):] if url.startswith(self.base) else url
        parts = rest.split("?")[0].split("/")
        site = parts[1]
        i = int(url.split("cursor=")[1].split("&")[0]) if "cursor=" in url else 0
        return FakeResponse(self._payload(site, i))
